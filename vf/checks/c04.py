"""C04 - matrix-function kernels equal their combinatorial definitions, without UB.

Monitors
  value  : every public entry point is called on generated inputs and compared with the
           defining sums (vf/refs/combinatorial.py, longdouble / exact rational)
  asan   : the same workload on the extension modules rebuilt with
           -fsanitize=address,undefined, loaded into the real interpreter (LD_PRELOAD);
           report blocks are counted in the sanitizer logs
  tsan   : the permanent kernels in a stand-alone driver built with -fsanitize=thread and a
           fork-join OpenMP shim, forced job counts and concurrent callers
"""

import glob
import os
import re
import subprocess
import time

import numpy as np

ID = "C04"
LEVEL = "exploration"
TECHNIQUE = "runtime monitoring with compiler sanitizers (ASan+UBSan in-process, TSan driver) on kernels rebuilt from the working tree; differential oracle against defining sums in extended precision"
DESIGN_REF = "DESIGN.md §4 C04"
LEVEL_TEXT = (
    "Generated matrices and multiplicity patterns (zeros, high repetitions up to total 40, rectangular, strided, "
    "Fortran-ordered, read-only, float32/float64) are pushed through every public entry point of the permanent, "
    "Laplace permanent, hafnian family, torontonians and Pfaffian; each value must lie within c*eps*envelope of the "
    "defining sum evaluated in extended precision, and the same workload must produce no AddressSanitizer / UBSan / "
    "ThreadSanitizer report in the natively rebuilt kernels."
)
LEVEL_NOTE = (
    "Sanitizers see only the native code the workload reaches; numba-compiled kernels (hafnian) are covered by the value "
    "oracle only; the batched JAX backward loop runs under ASan/UBSan but not TSan (XLA FFI buffers). A clean sanitizer run "
    "is not memory safety. Tolerance: 1e4*eps(dtype)*envelope, envelope = sum of |addends| of the defining sum."
)
RULE = (
    "cases = (kernel, input) pairs; non-trivial = the kernel returned a value that was compared with the reference (or ran "
    "under a sanitizer with the log inspected); distinct_nontrivial = distinct (kernel, dimension, multiplicity-pattern class, "
    "dtype, layout, flavour) classes."
)
ASSUMPTIONS = [
    "numpy longdouble (64-bit mantissa) evaluation of the defining sums is exact enough to serve as the reference (validated against exact rational arithmetic on a subset of each run)",
    "a backward-stable evaluation in precision eps differs from the true value by at most 1e4*eps*sum|addends|",
]
REQUIRED = ["value_comparisons", "exact_reference_validations", "asan_cases", "asan_logs_inspected", "tsan_driver_runs"]
WATCHDOG = {"quick": 900, "thorough": 5400}

EPS = {"d": np.finfo(np.float64).eps, "f": np.finfo(np.float32).eps}
C_TOL = 1e4


class Ctx:
    def __init__(self):
        self.violations = []
        self.c = {k: 0 for k in REQUIRED}
        self.c.update({"max_dev_over_tol": 0.0, "by_kernel": {}, "sanitizer_report_blocks": 0, "skipped_out_of_domain": 0,
                       "tsan_reports": 0, "caller_mismatches": 0, "tsan_batched_bwd_elements": 0, "batch_mismatches": 0})
        self.classes = set()
        self.samples = []
        self.obs = set()
        self.evals = 0

    def viol(self, mech, msg, case):
        if len(self.violations) < 200:
            self.violations.append({"mechanism": mech, "message": msg[:700], "case": case})

    def compare(self, kernel, got, ref, env, prec, case, cls, extra_scale=1.0):
        self.evals += 1
        self.c["value_comparisons"] += 1
        self.c["by_kernel"][kernel] = self.c["by_kernel"].get(kernel, 0) + 1
        self.classes.add("%s|%s" % (kernel, cls))
        tol = C_TOL * EPS[prec] * float(env) * extra_scale + 1e-300
        try:
            dev = abs(complex(got) - complex(ref))
        except Exception:
            dev = float("inf")
        if not np.isfinite(dev):
            dev = float("inf")
        ratio = dev / tol
        if ratio > self.c["max_dev_over_tol"] and np.isfinite(ratio):
            self.c["max_dev_over_tol"] = float(ratio)
        if not (dev <= tol):
            self.viol("%s-value" % kernel, "%s: got %r, defining sum %r, |dev|=%.3e > tol=%.3e (envelope %.3e, %s)" % (
                kernel, complex(got), complex(ref), dev, tol, float(env), cls), case)
            return False
        return True


# ----------------------------------------------------------------------------- generators
def gen_matrix(rng, n, m, kind=None):
    kind = kind or str(rng.choice(["gauss", "gauss", "sparse", "zero-row", "rank1", "unitary", "small", "large"]))
    A = rng.normal(size=(n, m)) + 1j * rng.normal(size=(n, m))
    if kind == "sparse":
        A = A * (rng.random(size=(n, m)) < 0.5)
    elif kind == "zero-row" and n > 0 and m > 0:
        A[int(rng.integers(0, n))] = 0
        if rng.random() < 0.5:
            A[:, int(rng.integers(0, m))] = 0
    elif kind == "rank1":
        u = rng.normal(size=n) + 1j * rng.normal(size=n)
        v = rng.normal(size=m) + 1j * rng.normal(size=m)
        A = np.outer(u, v)
    elif kind == "unitary" and n == m and n > 0:
        from vf.gen import matrices as M

        A = M.haar_unitary(rng, n)
    elif kind == "small":
        A = A * 1e-3
    elif kind == "large":
        A = A * 30
    # entries rounded to multiples of 2^-10 so that the exact-rational validation is cheap
    A = np.round(A * 1024) / 1024
    return A, kind


def gen_mult(rng, n, total, allow_zero=True):
    v = np.zeros(n, dtype=np.int64)
    for _ in range(total):
        v[int(rng.integers(0, n))] += 1
    if not allow_zero and n <= total:
        v = np.ones(n, dtype=np.int64)
        for _ in range(total - n):
            v[int(rng.integers(0, n))] += 1
    return v


def perm_case(rng, regime):
    if regime == "many-modes":
        n = int(rng.integers(1, 9))
        m = n if rng.random() < 0.7 else int(rng.integers(1, 9))
        total = int(rng.integers(0, 9))
    elif regime == "high-multiplicity":
        n = int(rng.integers(1, 4))
        m = int(rng.integers(1, 4))
        total = int(rng.integers(9, 41))
    else:  # edge
        n = int(rng.integers(0, 4))
        m = int(rng.integers(0, 4)) if n else 0
        total = int(rng.integers(0, 4))
    A, kind = gen_matrix(rng, n, m)
    if regime == "high-multiplicity":
        A = A / max(1.0, np.abs(A).max()) * 0.7  # keep 40-fold products inside the float range
    rows = gen_mult(rng, n, total) if n else np.zeros(0, dtype=np.int64)
    cols = gen_mult(rng, m, total) if m else np.zeros(0, dtype=np.int64)
    if n == 0 or m == 0:
        rows = np.zeros(n, dtype=np.int64)
        cols = np.zeros(m, dtype=np.int64)
    if regime == "high-multiplicity" and rng.random() < 0.4 and n == m:
        rows = np.full(n, total // n, dtype=np.int64)
        cols = rows.copy()
    return A, rows, cols, kind


def layouts(rng, A):
    """(name, array) variants of the same matrix."""
    k = int(rng.integers(0, 4))
    if k == 0 or A.size == 0:
        return "c", np.ascontiguousarray(A)
    if k == 1:
        return "f", np.asfortranarray(A)
    if k == 2:
        big = np.zeros((A.shape[0] * 2, A.shape[1] * 3), dtype=A.dtype)
        big[::2, ::3] = A
        return "strided", big[::2, ::3]
    ro = np.ascontiguousarray(A).copy()
    ro.setflags(write=False)
    return "readonly", ro


def mult_class(v):
    v = [int(x) for x in v]
    if not v:
        return "empty"
    return "z%d-max%d-tot%d" % (sum(1 for x in v if x == 0), min(max(v), 9) if max(v) < 9 else (10 * (max(v) // 10)), min(sum(v), 9) if sum(v) < 9 else 10 * (sum(v) // 10))


def enc_case(kernel, A, extra):
    from vf.gen import matrices as M

    d = {"kernel": kernel, "A": M.enc(np.asarray(A))}
    for k, v in extra.items():
        d[k] = M.enc(np.asarray(v)) if isinstance(v, np.ndarray) else v
    return d


# ----------------------------------------------------------------------------- workloads
def workload_permanent(ctx, rng, mods, count, value_oracle=True):
    from vf.refs import combinatorial as R

    perm_mod = mods["permanent"]
    for it in range(count):
        regime = ["many-modes", "high-multiplicity", "edge"][it % 3] if it % 7 else "high-multiplicity"
        A, rows, cols, kind = perm_case(rng, regime)
        prec = "f" if rng.random() < 0.25 else "d"
        if prec == "f" and A.size:
            # the un-normalised Glynn addends are bounded by 2^N * prod_j (sum_i r_i |a_ij|)^c_j; inputs
            # for which that leaves the single-precision range are not representable there at all
            with np.errstate(over="ignore"):
                bound = float(np.prod((np.abs(A).T @ np.maximum(rows, 0) + 1e-300) ** cols)) * 2.0 ** int(sum(rows) + 1)
            if not (bound < 1e36):
                prec = "d"
                ctx.c["float32_out_of_range_cases_run_in_double"] = ctx.c.get("float32_out_of_range_cases_run_in_double", 0) + 1
        Ain = A.astype(np.complex64 if prec == "f" else np.complex128)
        lay, Ain = layouts(rng, Ain)
        r32, c32 = rows.astype(np.int32), cols.astype(np.int32)
        if rng.random() < 0.3:
            r32, c32 = rows.astype(np.int64), cols.astype(np.int64)  # forcecast path
        case = enc_case("permanent", A, {"rows": rows, "cols": cols, "prec": prec, "layout": lay})
        cls = "%dx%d|r:%s|c:%s|%s|%s|%s" % (A.shape[0], A.shape[1], mult_class(rows), mult_class(cols), prec, lay, kind)
        try:
            got = perm_mod.permanent(Ain, r32, c32)
        except Exception as e:
            ctx.viol("permanent-raises", "permanent raised %s: %s (%s)" % (type(e).__name__, e, cls), case)
            continue
        if not value_oracle:
            ctx.evals += 1
            ctx.classes.add("permanent|" + cls)
            if A.shape[0] > 0 and A.shape[1] > 0 and it % 2 == 0:
                cols_l = cols.copy()
                cols_l[int(rng.integers(0, len(cols_l)))] += 1
                perm_mod.permanent_laplace(Ain, r32, cols_l.astype(np.int32))  # zero column multiplicities included
                ctx.evals += 1
            continue
        ref, env = R.perm_multiplicity(Ain.astype(np.complex128), rows, cols)
        env = max(env, R.glynn_envelope(Ain.astype(np.complex128), rows, cols))
        ctx.compare("permanent", np.asarray(got).item(), ref, env, prec, case, cls)
        if it % 25 == 0 and sum(rows) <= 20:
            ex = R.perm_multiplicity_exact(Ain.astype(np.complex128), rows, cols)
            exv = complex(float(ex[0]), float(ex[1]))
            ctx.c["exact_reference_validations"] += 1
            if abs(complex(ref) - exv) > 1e-15 * max(float(env), 1e-300) * 100:
                ctx.viol("reference-self-check", "longdouble reference %r differs from the exact rational value %r" % (complex(ref), exv), case)
        # connector entry point
        if it % 5 == 0 and prec == "d":
            got2 = mods["numpy_connector"].permanent(Ain, r32, c32)
            ctx.compare("connector.permanent", np.asarray(got2).item(), ref, env, prec, case, cls)
        # Laplace variant: cols has one photon more than rows
        if sum(rows) >= 0 and A.shape[0] > 0 and A.shape[1] > 0 and it % 2 == 0:
            cols_l = cols.copy()
            cols_l[int(rng.integers(0, len(cols_l)))] += 1
            # every multiplicity pattern, zeros included: entry j is defined (and judged) where cols_l[j] > 0
            if True:
                try:
                    gl = np.asarray(perm_mod.permanent_laplace(Ain, r32, cols_l.astype(np.int32)))
                except Exception as e:
                    ctx.viol("permanent_laplace-raises", "permanent_laplace raised %s: %s" % (type(e).__name__, e), case)
                    continue
                refs = R.perm_laplace(Ain.astype(np.complex128), rows, cols_l)
                lcase = enc_case("permanent_laplace", A, {"rows": rows, "cols": cols_l, "prec": prec, "layout": lay})
                if len(gl) != len(refs):
                    ctx.viol("permanent_laplace-length", "permanent_laplace returned %d values for %d columns" % (len(gl), len(refs)), lcase)
                else:
                    if (cols_l == 0).any():
                        ctx.c["laplace_zero_column_cases"] = ctx.c.get("laplace_zero_column_cases", 0) + 1
                    for j, rv in enumerate(refs):
                        if rv is None:
                            continue
                        c2 = cols_l.copy()
                        c2[j] -= 1
                        rv = (rv[0], max(rv[1], R.glynn_envelope(Ain.astype(np.complex128), rows, c2)))
                        ctx.compare("permanent_laplace", gl[j], rv[0], rv[1], prec, lcase, cls + "|col%d" % (j if j < 3 else 3))
        if len(ctx.samples) < 2:
            ctx.samples.append({"kernel": "permanent", "shape": list(A.shape), "rows": rows.tolist(), "cols": cols.tolist(),
                                "value": [float(np.real(got)), float(np.imag(got))], "reference": [float(complex(ref).real), float(complex(ref).imag)]})


def workload_hafnian(ctx, rng, mods, count):
    from vf.refs import combinatorial as R
    from piquasso._math import hafnian as H

    conn = mods["numpy_connector"]
    for it in range(count):
        n = int(rng.integers(1, 7))
        total_max = 10
        red = gen_mult(rng, n, int(rng.integers(0, min(total_max, 2 * n + 3) + 1)))
        B, kind = gen_matrix(rng, n, n)
        B = B + B.T
        if rng.random() < 0.4:
            B = B.real + 0j
        cls = "n%d|%s|%s" % (n, mult_class(red), kind)
        case = enc_case("hafnian", B, {"reduce_on": red})
        try:
            got = H.hafnian_with_reduction(np.ascontiguousarray(B), red.astype(np.int64))
        except Exception as e:
            ctx.viol("hafnian-raises", "hafnian_with_reduction raised %s: %s (%s)" % (type(e).__name__, e, cls), case)
            got = None
        ref, env = R.hafnian_reduced(B, red)
        if got is not None:
            ctx.compare("hafnian", got, ref, env, "d", case, cls)
        diag = np.round((rng.normal(size=n) + 1j * rng.normal(size=n)) * 256) / 256
        lcase = enc_case("loop_hafnian", B, {"reduce_on": red, "diag": diag})
        try:
            gotl = H.loop_hafnian_with_reduction(np.ascontiguousarray(B), diag, red.astype(np.int64))
        except Exception as e:
            ctx.viol("loop_hafnian-raises", "loop_hafnian_with_reduction raised %s: %s (%s)" % (type(e).__name__, e, cls), lcase)
            gotl = None
        refl, envl = R.loop_hafnian_reduced(B, diag, red)
        if gotl is not None:
            ctx.compare("loop_hafnian", gotl, refl, envl, "d", lcase, cls + ("|odd" if sum(red) % 2 else "|even"))
        if it % 4 == 0:
            g2 = conn.hafnian(np.ascontiguousarray(B), red.astype(np.int64))
            ctx.compare("connector.hafnian", g2, ref, env, "d", case, cls)
            g3 = conn.loop_hafnian(np.ascontiguousarray(B), diag, red.astype(np.int64))
            ctx.compare("connector.loop_hafnian", g3, refl, envl, "d", lcase, cls)
        # batch variants: the last occupation number runs over 0..cutoff-1 (as the Gaussian
        # particle-number sampler calls them: last entry of the occupation vector is 0)
        if it % 3 == 0 and n >= 1:
            cutoff = int(rng.integers(1, 5))
            base = red.copy()
            base[-1] = 0
            try:
                gb = np.asarray(H.loop_hafnian_with_reduction_batch(np.ascontiguousarray(B), diag, base.astype(np.int64), cutoff))
            except Exception as e:
                ctx.viol("loop_hafnian_batch-raises", "loop_hafnian_with_reduction_batch raised %s: %s (%s)" % (type(e).__name__, str(e)[:120], cls),
                         enc_case("loop_hafnian_batch", B, {"reduce_on": base, "diag": diag, "cutoff": cutoff}))
                gb = None
            if gb is not None:
                if len(gb) != cutoff:
                    ctx.viol("loop_hafnian_batch-length", "batch loop hafnian returned %d values for cutoff %d" % (len(gb), cutoff),
                             enc_case("loop_hafnian_batch", B, {"reduce_on": base, "diag": diag, "cutoff": cutoff}))
                for k in range(min(cutoff, len(gb))):
                    rk = base.copy()
                    rk[-1] = k
                    rv, ev = R.loop_hafnian_reduced(B, diag, rk)
                    ctx.compare("loop_hafnian_batch", gb[k], rv, ev, "d",
                                enc_case("loop_hafnian_batch", B, {"reduce_on": rk, "diag": diag, "cutoff": cutoff, "k": k}), cls + "|k%d" % k)
            try:
                gb = np.asarray(H.hafnian_with_reduction_batch(np.ascontiguousarray(B), base.astype(np.int64), cutoff))
            except Exception as e:
                ctx.obs.add("hafnian_with_reduction_batch raised %s: %s" % (type(e).__name__, str(e)[:80]))
                gb = None
            if gb is not None:
                ctx.obs.add("hafnian_with_reduction_batch(cutoff=%d) returns %d values" % (cutoff, len(gb)))


def physical_tor_input(rng, d):
    """1 - Sigma^{-1} for Sigma = (cov/hbar-scaled + 1)/2 of a random physical Gaussian state (xpxp)."""
    from vf.gen import matrices as M

    mean, cov = M.physical_gaussian(rng, d, hbar=1.0, rmax=0.8)
    idx = M.xxpp_to_xpxp(d)
    cov = cov[np.ix_(idx, idx)] * 2.0  # hbar=1: vacuum = 1/2 -> scale so that vacuum = identity
    sigma = (cov + np.eye(2 * d)) / 2
    O = np.eye(2 * d) - np.linalg.inv(sigma)
    O = (O + O.T) / 2
    gamma = np.linalg.inv(sigma) @ (mean[idx] * 0.5)
    return O, gamma


def workload_torontonian(ctx, rng, mods, count, value_oracle=True):
    from vf.refs import combinatorial as R

    T = mods["torontonian"]
    for it in range(count):
        d = int(rng.integers(0, 7))
        if d == 0:
            O, gamma = np.zeros((0, 0)), np.zeros(0)
        else:
            O, gamma = physical_tor_input(rng, d)
        prec = "f" if rng.random() < 0.2 else "d"
        dt = np.float32 if prec == "f" else np.float64
        Oin = np.ascontiguousarray(O.astype(dt))
        if d == 0:
            Oin = np.zeros((0, 0), dtype=dt) if rng.random() < 0.5 else np.array([[]], dtype=dt)
        lay = "c"
        if d > 0 and rng.random() < 0.3:
            lay, Oin = layouts(rng, Oin)
        cls = "d%d|%s|%s" % (d, prec, lay)
        case = enc_case("torontonian", O, {"prec": prec, "layout": lay})
        try:
            got = T.torontonian(Oin)
        except Exception as e:
            ctx.viol("torontonian-raises", "torontonian raised %s: %s (%s)" % (type(e).__name__, e, cls), case)
            continue
        if value_oracle:
            ref, env = R.torontonian(Oin.astype(np.float64))
            if ref is None:
                ctx.c["skipped_out_of_domain"] += 1
            else:
                kappa = np.linalg.cond(np.eye(2 * d) - Oin.astype(np.float64)) if d else 1.0
                ctx.compare("torontonian", np.asarray(got).item(), ref, env, prec, case, cls, extra_scale=max(1.0, kappa))
        else:
            ctx.evals += 1
            ctx.classes.add("torontonian|" + cls)
        if d > 0:
            gin = np.ascontiguousarray(gamma.astype(dt))
            lcase = enc_case("loop_torontonian", O, {"gamma": gamma, "prec": prec, "layout": lay})
            try:
                gotl = T.loop_torontonian(Oin, gin)
            except Exception as e:
                ctx.viol("loop_torontonian-raises", "loop_torontonian raised %s: %s (%s)" % (type(e).__name__, e, cls), lcase)
                continue
            if value_oracle:
                refl, envl = R.torontonian(Oin.astype(np.float64), gin.astype(np.float64))
                if refl is not None:
                    kappa = np.linalg.cond(np.eye(2 * d) - Oin.astype(np.float64))
                    ctx.compare("loop_torontonian", np.asarray(gotl).item(), refl, envl, prec, lcase, cls, extra_scale=max(1.0, kappa) * (1 + float(gin @ gin)))
            else:
                ctx.evals += 1


def workload_pfaffian(ctx, rng, mods, count, value_oracle=True):
    from vf.refs import combinatorial as R

    P = mods["pfaffian"]
    conn = mods["numpy_connector"]
    for it in range(count):
        n = int(rng.integers(0, 11))
        S = rng.normal(size=(n, n))
        kind = str(rng.choice(["gauss", "sparse", "zero-pivot", "int"]))
        if kind == "sparse":
            S = S * (rng.random(size=(n, n)) < 0.5)
        elif kind == "int":
            S = np.round(S * 3)
        S = S - S.T
        if kind == "zero-pivot" and n >= 2:
            S[0, 1] = S[1, 0] = 0.0  # forces a pivot search in Parlett-Reid
        prec = "f" if rng.random() < 0.2 else "d"
        # "every matrix": overall and per-mode scalings (the Pfaffian is homogeneous, the tolerance is relative to the
        # envelope of the defining sum, so a kernel with an absolute pivot threshold shows up here); the scale is kept
        # where neither the value nor the running product leaves the normal range of the precision
        scaled = ""
        if n >= 2 and rng.random() < 0.35:
            lim = 20.0 if prec == "f" else 200.0
            e = float(rng.choice([-12, -9, -6, -3, 3, 6]))
            if rng.random() < 0.5:
                if abs(e) * (n / 2) <= lim:
                    S = S * 10.0 ** e
                    scaled = "|scaled1e%d" % int(e)
            elif abs(e) <= lim:
                D = np.ones(n)
                D[-2:] = 10.0 ** e
                S = D[:, None] * S * D[None, :]
                scaled = "|dad1e%d" % int(e)
        dt = np.float32 if prec == "f" else np.float64
        Sin = np.ascontiguousarray(S.astype(dt))
        lay = "c"
        if n > 0 and rng.random() < 0.3:
            lay, Sin = layouts(rng, Sin)
        cls = "n%d|%s|%s|%s%s" % (n, kind, prec, lay, scaled)
        case = enc_case("pfaffian", S, {"prec": prec, "layout": lay})
        try:
            got = P.pfaffian(Sin)
        except Exception as e:
            if lay == "readonly":
                ctx.obs.add("pfaffian rejects read-only input: %s" % type(e).__name__)
                continue
            ctx.viol("pfaffian-raises", "pfaffian raised %s: %s (%s)" % (type(e).__name__, e, cls), case)
            continue
        if value_oracle:
            ref, env = R.pfaffian(Sin.astype(np.float64))
            # Parlett-Reid with partial pivoting: growth factor bounded by 2^(n/2) in the worst case
            ctx.compare("pfaffian", np.asarray(got).item(), ref, env, prec, case, cls, extra_scale=float(max(1, n)) ** 2)
            if it % 4 == 0 and prec == "d":
                g2 = conn.pfaffian(np.ascontiguousarray(S))
                ctx.compare("connector.pfaffian", np.asarray(g2).item(), ref, env, prec, case, cls, extra_scale=float(max(1, n)) ** 2)
        else:
            ctx.evals += 1
            ctx.classes.add("pfaffian|" + cls)


def workload_jax_perm(ctx, rng, count):
    """piquasso.jax_extensions.perm (XLA FFI -> src/jax_perm/jax_perm_core.cpp), forward + backward."""
    from vf.refs import combinatorial as R
    import jax

    jax.config.update("jax_enable_x64", True)
    import jax.numpy as jnp
    from piquasso.jax_extensions import permanent as jp

    fn = getattr(jp, "perm", None) or getattr(jp, "permanent", None)
    if fn is None:
        ctx.obs.add("piquasso.jax_extensions has no perm function")
        return
    for it in range(count):
        n = int(rng.integers(1, 5))
        A, kind = gen_matrix(rng, n, n, "gauss")
        total = int(rng.integers(0, 7))
        rows = gen_mult(rng, n, total)
        cols = gen_mult(rng, n, total)
        case = enc_case("jax.perm", A, {"rows": rows, "cols": cols})
        cls = "n%d|r:%s|c:%s" % (n, mult_class(rows), mult_class(cols))
        try:
            ut = jnp.uint32 if it % 2 else jnp.uint64
            got = fn(jnp.asarray(A, dtype=jnp.complex128), jnp.asarray(rows, dtype=ut), jnp.asarray(cols, dtype=ut))
            got = complex(np.asarray(got))
        except Exception as e:
            ctx.viol("jax.perm-raises", "jax_extensions.perm raised %s: %s" % (type(e).__name__, str(e)[:200]), case)
            continue
        ref, env = R.perm_multiplicity(A, rows, cols)
        env = max(env, R.glynn_envelope(A, rows, cols))
        ctx.compare("jax.perm", got, ref, env, "d", case, cls)
        # backward pass (grad of Re perm): drives grad_perm / the batched backward loop
        if it % 3 == 0:
            try:
                g = jax.grad(lambda M_: jnp.real(fn(M_, jnp.asarray(rows, dtype=jnp.uint32), jnp.asarray(cols, dtype=jnp.uint32))), holomorphic=False)(jnp.asarray(A, dtype=jnp.complex128))
                np.asarray(g)
                ctx.c["by_kernel"]["jax.perm.grad"] = ctx.c["by_kernel"].get("jax.perm.grad", 0) + 1
            except Exception as e:
                ctx.obs.add("jax.grad(perm) raised %s: %s" % (type(e).__name__, str(e)[:100]))


# ----------------------------------------------------------------------------- sanitizer logs
REPORT_RE = re.compile(r"(ERROR: AddressSanitizer: [\w-]+|runtime error: [^\n]+|WARNING: ThreadSanitizer: [^\n(]+)")
SRC_RE = re.compile(r"(/[\w./-]*(?:src|_math|jax_perm)/[\w./-]+\.(?:cpp|hpp)):(\d+)")


def parse_sanitizer_logs(paths_or_text):
    """Returns a list of (kind, first repo source location) per report block."""
    out = []
    texts = []
    for p in paths_or_text:
        if os.path.exists(p):
            with open(p, errors="replace") as fh:
                texts.append(fh.read())
        else:
            texts.append(p)
    for text in texts:
        pos = [m.start() for m in REPORT_RE.finditer(text)]
        for i, s in enumerate(pos):
            block = text[s: pos[i + 1] if i + 1 < len(pos) else len(text)]
            kind = REPORT_RE.match(block).group(1)
            kind = re.sub(r"\d+", "N", kind)[:80]
            loc = SRC_RE.search(block)
            where = "%s:%s" % (os.path.basename(loc.group(1)), loc.group(2)) if loc else "?"
            out.append((kind, where))
    return out


# ----------------------------------------------------------------------------- tsan driver
def write_driver_cases(path, rng, count, meta=None, with_ffi=False):
    lines = []
    n_cases = 0
    for it in range(count):
        regime = ["many-modes", "high-multiplicity"][it % 2]
        A, rows, cols, kind = perm_case(rng, regime)
        if A.shape[0] == 0 or A.shape[1] == 0:
            continue
        if regime == "high-multiplicity" and sum(rows) > 24:
            continue
        kinds = ["perm"]
        if it % 3 == 0 and A.shape[0] == A.shape[1] and sum(rows) <= 10:
            kinds.append("grad")
        cl = cols.copy()
        cl[int(rng.integers(0, len(cl)))] += 1
        for k in kinds + (["laplace"] if (cl > 0).all() else []):
            c_use = cl if k == "laplace" else cols
            lines.append("%s %s %d %d" % (k, "f" if it % 5 == 0 and k != "grad" else "d", A.shape[0], A.shape[1]))
            lines.append(" ".join(str(int(r)) for r in rows))
            lines.append(" ".join(str(int(c)) for c in c_use))
            lines.append(" ".join("%.17g %.17g" % (z.real, z.imag) for z in A.ravel()))
            if meta is not None:
                meta.append({"kind": k, "prec": "f" if it % 5 == 0 and k != "grad" else "d", "A": A, "rows": rows.copy(), "cols": np.asarray(c_use).copy()})
            n_cases += 1
    # batched XLA-FFI backward handler (src/jax_perm/jax_perm_core.cpp: `omp parallel for` over the
    # batch, each element calling grad_perm, itself parallel) and the unbatched FFI forward handler
    for it in range(max(2, count // 12) if with_ffi else 0):
        n = int(rng.integers(1, 4))
        batch = int(rng.choice([1, 2, 3, 5, 8]))
        total = int(rng.integers(1, 6))
        lines.append("bwd d %d %d %d" % (n, n, batch))
        elems = []
        for b in range(batch):
            rows = rng.multinomial(total, np.ones(n) / n)
            cols = rng.multinomial(total, np.ones(n) / n)
            A = rng.normal(size=(n, n)) + 1j * rng.normal(size=(n, n))
            cot = complex(rng.normal(), rng.normal())
            lines.append(" ".join(str(int(r)) for r in rows))
            lines.append(" ".join(str(int(c)) for c in cols))
            lines.append(" ".join("%.17g %.17g" % (z.real, z.imag) for z in A.ravel()))
            lines.append("%.17g %.17g" % (cot.real, cot.imag))
            elems.append({"kind": "grad", "prec": "d", "A": A, "rows": rows.copy(), "cols": cols.copy(), "cot": cot})
        if meta is not None:
            meta.append({"kind": "bwd", "prec": "d", "batch": batch, "elements": elems})
        n_cases += 1
        A, rows, cols, kind = perm_case(rng, "many-modes")
        if A.shape[0] and A.shape[1]:
            lines.append("ffi d %d %d" % A.shape)
            lines.append(" ".join(str(int(r)) for r in rows))
            lines.append(" ".join(str(int(c)) for c in cols))
            lines.append(" ".join("%.17g %.17g" % (z.real, z.imag) for z in A.ravel()))
            if meta is not None:
                meta.append({"kind": "perm", "prec": "d", "A": A, "rows": rows.copy(), "cols": np.asarray(cols).copy()})
            n_cases += 1
    with open(path, "w") as fh:
        fh.write("%d\n" % n_cases + "\n".join(lines) + "\n")
    return n_cases


def driver_case_envelopes(m):
    """Rounding envelopes (one per output value) of a driver case, see vf/refs/combinatorial.py."""
    from vf.refs import combinatorial as R

    if m["kind"] != "bwd":
        A, rows, cols = m["A"], m["rows"], m["cols"]

    def env(r, c):
        if sum(r) != sum(c):
            return 0.0
        if sum(r) == 0:
            return 1.0
        return float(max(R.perm_multiplicity(A, r, c)[1], R.glynn_envelope(A, r, c)))

    if m["kind"] == "bwd":
        out = []
        for e in m["elements"]:
            out.extend(abs(e["cot"]) * x for x in driver_case_envelopes(e))
        return out
    if m["kind"] == "perm":
        return [env(rows, cols)]
    if m["kind"] == "laplace":
        out = []
        for j in range(len(cols)):
            c2 = cols.copy()
            c2[j] -= 1
            out.append(env(rows, c2) if cols[j] > 0 else 0.0)
        return out
    out = []
    for i in range(len(rows)):
        for j in range(len(cols)):
            if rows[i] == 0 or cols[j] == 0:
                out.append(0.0)
                continue
            r2, c2 = rows.copy(), cols.copy()
            r2[i] -= 1
            c2[j] -= 1
            out.append(float(rows[i] * cols[j]) * env(r2, c2))
    return out


def run_tsan(ctx, rng, spec):
    from vf import boot
    from vf.native import build

    exe = build.build_driver(boot.REPO, "tsan")
    plain = build.build_driver(boot.REPO, "plain")
    work = os.path.join(boot.BUILD, "run", "c04-tsan-%d" % os.getpid())
    os.makedirs(work, exist_ok=True)
    casefile = os.path.join(work, "cases.txt")
    n = write_driver_cases(casefile, rng, int(spec["count"]), with_ffi=True)
    base = None
    hwcs = spec["hwc"]
    for hwc in hwcs:
        for callers in spec["callers"]:
            env = dict(os.environ)
            env["VERIF_HWC"] = str(hwc)
            env["TSAN_OPTIONS"] = "halt_on_error=0 report_signal_unsafe=0 exitcode=0"
            # threads of the batched backward loop (omp_get_max_threads of the fork-join shim)
            env["OMP_NUM_THREADS"] = str([1, 3, 8][(int(hwc) + int(callers)) % 3])
            t0 = time.time()
            try:
                r = subprocess.run([exe, casefile, str(callers)], env=env, stdout=subprocess.PIPE, stderr=subprocess.PIPE,
                                   text=True, timeout=600)
            except subprocess.TimeoutExpired:
                ctx.obs.add("tsan driver timed out for hwc=%s callers=%s" % (hwc, callers))
                continue
            ctx.c["tsan_driver_runs"] += 1
            ctx.evals += n
            ctx.classes.add("tsan|hwc%d|callers%d" % (hwc, callers))
            reps = parse_sanitizer_logs([r.stderr])
            for kind, where in sorted(set(reps)):
                ctx.c["tsan_reports"] += 1
                ctx.viol("tsan-report:%s" % where, "ThreadSanitizer: %s at %s (hwc=%d -> %d jobs max, %d callers)" % (kind, where, hwc, 4 * hwc, callers),
                         {"kernel": "tsan-driver", "hwc": hwc, "callers": callers, "report": r.stderr[:3000]})
            if r.returncode != 0:
                ctx.viol("tsan-driver-crash", "driver exited with %d: %s" % (r.returncode, r.stderr[-500:]), {"kernel": "tsan-driver", "hwc": hwc})
                continue
            mb = re.search(r"BATCH_ELEMENTS (\d+)\s+BATCH_MISMATCHES (\d+)", r.stdout)
            if mb:
                ctx.c["tsan_batched_bwd_elements"] += int(mb.group(1))
                if int(mb.group(2)) > 0:
                    ctx.c["batch_mismatches"] += int(mb.group(2))
                    ctx.viol("batched-backward-differs-from-single", "%s of %s batch elements of the FFI backward handler differ from cot * grad_perm of the element alone (hwc=%d, OMP_NUM_THREADS=%s)"
                             % (mb.group(2), mb.group(1), hwc, env["OMP_NUM_THREADS"]), {"kernel": "tsan-driver", "hwc": hwc, "callers": callers})
            m = re.search(r"CALLER_MISMATCHES (\d+)", r.stdout)
            if m and int(m.group(1)) > 0:
                ctx.c["caller_mismatches"] += int(m.group(1))
                ctx.viol("concurrent-callers-disagree", "%s results differ between concurrent callers (hwc=%d)" % (m.group(1), hwc),
                         {"kernel": "tsan-driver", "hwc": hwc, "callers": callers})
    try:
        import shutil

        shutil.rmtree(work, ignore_errors=True)
    except Exception:
        pass


# ----------------------------------------------------------------------------- plan / run
def plan(tier, seed):
    from vf.native import build

    q = tier == "quick"
    specs = []
    idx = 0
    for fam, cnt in (("permanent", 300 if q else 4000), ("hafnian", 150 if q else 2000), ("torontonian", 300 if q else 3000),
                     ("pfaffian", 400 if q else 4000)):
        for j in range(2 if q else 3):
            specs.append({"name": "value-%s-%d" % (fam, j), "kind": "value", "family": fam, "count": cnt, "shard": idx})
            idx += 1
    specs.append({"name": "value-jax", "kind": "value", "family": "jax", "count": 60 if q else 400, "shard": idx})
    idx += 1
    asan_env = {
        "VERIF_NATIVE": "asan",
        "LD_PRELOAD": build.sanitizer_preload(),
        "ASAN_OPTIONS": "detect_leaks=0:halt_on_error=0:abort_on_error=0:exitcode=0:allocator_may_return_null=1",
        "UBSAN_OPTIONS": "print_stacktrace=1:halt_on_error=0",
        # 4*VERIF_HWC OpenMP threads are created per kernel call; thread creation is what is
        # expensive under ASan, and the job partition itself is C11's subject
        "VERIF_HWC": "1",
        "OMP_NUM_THREADS": "4",
    }
    for fam in ("permanent", "torontonian", "pfaffian", "jax"):
        specs.append({"name": "asan-%s" % fam, "kind": "asan", "family": fam, "count": {"permanent": 200, "torontonian": 150, "pfaffian": 200, "jax": 20}[fam] * (1 if q else 8),
                      "shard": idx, "env": asan_env, "weight": 2})
        idx += 1
    if q:
        specs.append({"name": "tsan", "kind": "tsan", "shard": idx, "no_piquasso": True, "count": 24,
                      "hwc": [1, 3, 16], "callers": [1, 3], "weight": 4})
    else:
        for j, hw in enumerate(([1, 2, 3], [4, 5, 7], [8, 13], [16, 32], [64])):
            specs.append({"name": "tsan-%d" % j, "kind": "tsan", "shard": idx + j, "no_piquasso": True, "count": 120,
                          "hwc": hw, "callers": [1, 2, 8], "weight": 4})
    return specs


def _mods(pq):
    from piquasso._math import permanent, torontonian, pfaffian

    return {"permanent": permanent, "torontonian": torontonian, "pfaffian": pfaffian, "numpy_connector": pq.NumpyConnector()}


def run_shard(spec):
    rng = np.random.default_rng([int(spec["seed"]), 4, int(spec["shard"])])
    ctx = Ctx()
    if spec["kind"] == "tsan":
        run_tsan(ctx, rng, spec)
    else:
        from vf import boot

        log_prefix = None
        if spec["kind"] == "asan":
            # sanitizer logs of this very process: log_path must be set before the runtime starts, so
            # the runner cannot know the pid; point both runtimes at a per-shard prefix instead
            log_prefix = os.path.join(boot.BUILD, "run", "c04-san-%d" % os.getpid())
            os.makedirs(os.path.dirname(log_prefix), exist_ok=True)
            _redirect_sanitizer_output(log_prefix)
        pq = boot.import_piquasso()
        mods = _mods(pq)
        assert (spec["kind"] == "asan") == ("asan-" in os.path.dirname(mods["permanent"].__file__)), mods["permanent"].__file__
        value = spec["kind"] == "value"
        fam = spec["family"]
        n = int(spec["count"])
        if fam == "permanent":
            workload_permanent(ctx, rng, mods, n, value_oracle=value)
        elif fam == "hafnian":
            workload_hafnian(ctx, rng, mods, n)
        elif fam == "torontonian":
            workload_torontonian(ctx, rng, mods, n, value_oracle=value)
        elif fam == "pfaffian":
            workload_pfaffian(ctx, rng, mods, n, value_oracle=value)
        elif fam == "jax":
            workload_jax_perm(ctx, rng, n)
        if spec["kind"] == "asan":
            ctx.c["asan_cases"] += ctx.evals
            text = _collect_sanitizer_output(log_prefix)
            ctx.c["asan_logs_inspected"] += 1
            reps = parse_sanitizer_logs([text])
            ctx.c["sanitizer_report_blocks"] += len(reps)
            seen = {}
            for kind, where in reps:
                seen[(kind, where)] = seen.get((kind, where), 0) + 1
            for (kind, where), cnt in sorted(seen.items()):
                ctx.viol("sanitizer:%s:%s" % (kind.replace("ERROR: AddressSanitizer: ", "asan-").replace("runtime error: ", "ubsan-")[:60], where),
                         "%s at %s (%d report(s) in the %s workload)" % (kind, where, cnt, fam),
                         {"kernel": "sanitizer", "family": fam, "seed": int(spec["seed"]), "shard": int(spec["shard"]), "count": n,
                          "excerpt": _excerpt(text, kind)})
            # value comparisons made under the sanitizer build count as value comparisons too
    return {"evaluations": ctx.evals, "classes": sorted(ctx.classes), "violations": ctx.violations,
            "counters": ctx.c, "samples": ctx.samples, "observations": sorted(ctx.obs)[:20]}


_san_file = None
_saved_fd = None


def _redirect_sanitizer_output(prefix):
    """ASan/UBSan write to stderr (fd 2). Point fd 2 at a file for the duration of the shard so
    that the reports of this process can be read back and counted."""
    global _san_file, _saved_fd
    import sys

    sys.stderr.flush()
    _san_file = prefix + ".stderr"
    _saved_fd = os.dup(2)
    fd = os.open(_san_file, os.O_WRONLY | os.O_CREAT | os.O_TRUNC, 0o644)
    os.dup2(fd, 2)
    os.close(fd)


def _collect_sanitizer_output(prefix):
    import sys

    sys.stderr.flush()
    if _saved_fd is not None:
        os.dup2(_saved_fd, 2)
    text = ""
    try:
        with open(_san_file, errors="replace") as fh:
            text = fh.read()
        os.remove(_san_file)
    except OSError:
        pass
    return text


def _excerpt(text, kind):
    i = text.find(kind.split(": ")[-1][:30])
    return text[max(0, i - 200): i + 1500] if i >= 0 else text[:1500]


def replay(case):
    from vf import boot
    from vf.gen import matrices as M
    from vf.refs import combinatorial as R

    ctx = Ctx()
    k = case.get("kernel")
    if k in ("sanitizer", "tsan-driver"):
        # re-run the recorded shard kind on a small workload
        rng = np.random.default_rng([int(case.get("seed", 0)), 4, int(case.get("shard", 0))])
        if k == "tsan-driver":
            run_tsan(ctx, rng, {"count": 40, "hwc": [case.get("hwc", 4)], "callers": [case.get("callers", 2)]})
        else:
            ctx.obs.add("sanitizer cases are replayed by re-running ./check C04 (they need LD_PRELOAD)")
        return ctx.violations
    pq = boot.import_piquasso()
    mods = _mods(pq)
    A = M.dec(case["A"])
    prec = case.get("prec", "d")
    if k in ("permanent", "connector.permanent", "jax.perm"):
        rows, cols = M.dec(case["rows"]), M.dec(case["cols"])
        Ain = np.ascontiguousarray(A.astype(np.complex64 if prec == "f" else np.complex128))
        got = mods["permanent"].permanent(Ain, rows.astype(np.int32), cols.astype(np.int32))
        ref, env = R.perm_multiplicity(Ain.astype(np.complex128), rows, cols)
        ctx.compare("permanent", np.asarray(got).item(), ref, env, prec, case, "replay")
    elif k == "permanent_laplace":
        rows, cols = M.dec(case["rows"]), M.dec(case["cols"])
        Ain = np.ascontiguousarray(A.astype(np.complex64 if prec == "f" else np.complex128))
        gl = np.asarray(mods["permanent"].permanent_laplace(Ain, rows.astype(np.int32), cols.astype(np.int32)))
        for j, rv in enumerate(R.perm_laplace(Ain.astype(np.complex128), rows, cols)):
            ctx.compare("permanent_laplace", gl[j], rv[0], rv[1], prec, case, "replay")
    elif k in ("hafnian", "connector.hafnian", "hafnian_batch"):
        from piquasso._math import hafnian as H

        red = M.dec(case["reduce_on"])
        ref, env = R.hafnian_reduced(A, red)
        ctx.compare("hafnian", H.hafnian_with_reduction(np.ascontiguousarray(A), red.astype(np.int64)), ref, env, "d", case, "replay")
    elif k in ("loop_hafnian", "connector.loop_hafnian", "loop_hafnian_batch"):
        from piquasso._math import hafnian as H

        red, diag = M.dec(case["reduce_on"]), M.dec(case["diag"])
        ref, env = R.loop_hafnian_reduced(A, diag, red)
        ctx.compare("loop_hafnian", H.loop_hafnian_with_reduction(np.ascontiguousarray(A), diag, red.astype(np.int64)), ref, env, "d", case, "replay")
    elif k in ("torontonian", "loop_torontonian"):
        dt = np.float32 if prec == "f" else np.float64
        Oin = np.ascontiguousarray(np.asarray(A, dtype=dt))
        d = Oin.shape[0] // 2
        kappa = np.linalg.cond(np.eye(2 * d) - Oin.astype(np.float64)) if d else 1.0
        if k == "torontonian":
            ref, env = R.torontonian(Oin.astype(np.float64))
            ctx.compare("torontonian", np.asarray(mods["torontonian"].torontonian(Oin)).item(), ref, env, prec, case, "replay", extra_scale=max(1.0, kappa))
        else:
            g = np.ascontiguousarray(M.dec(case["gamma"]).astype(dt))
            ref, env = R.torontonian(Oin.astype(np.float64), g.astype(np.float64))
            ctx.compare("loop_torontonian", np.asarray(mods["torontonian"].loop_torontonian(Oin, g)).item(), ref, env, prec, case, "replay",
                        extra_scale=max(1.0, kappa) * (1 + float(g @ g)))
    elif k in ("pfaffian", "connector.pfaffian"):
        dt = np.float32 if prec == "f" else np.float64
        Sin = np.ascontiguousarray(np.asarray(A, dtype=dt))
        ref, env = R.pfaffian(Sin.astype(np.float64))
        ctx.compare("pfaffian", np.asarray(mods["pfaffian"].pfaffian(Sin.copy())).item(), ref, env, prec, case, "replay", extra_scale=float(max(1, Sin.shape[0])) ** 2)
    return ctx.violations
