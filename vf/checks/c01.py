"""C01 - all bosonic simulators agree on photon-number statistics.

Monitor: step hook with a *norm ledger* (norm of the truncated state before/after every
instruction + instruction class) on every Fock-space run; differential execution of the same
program document on 2-4 simulators.
Oracle : pairwise equality of fock_probabilities, get_particle_detection_probability,
state_vector, density_matrix within a truncation bound *computed from the ledger*
(DESIGN §4 C01-B); 0 for number-conserving programs.
"""

import time

import numpy as np

ID = "C01"
LEVEL = "exploration"
TECHNIQUE = "runtime monitoring: step-hook norm ledger + differential execution of one program on 2-4 simulators, compared within a truncation bound computed from the observed norms"
DESIGN_REF = "DESIGN.md §4 C01"
LEVEL_TEXT = (
    "Each generated program (ordered mode subsets, d<=4, four values of hbar, cutoffs 1..8, vacuum / number-state / "
    "superposition inputs) runs on every bosonic simulator that supports it while the hook records the norm of the "
    "truncated state around every instruction. Probabilities, detection probabilities, state vectors (phase included) and "
    "density matrices must agree pairwise within rounding for number-conserving programs and within the ledger bound "
    "otherwise."
)
LEVEL_NOTE = (
    "The truncation bound assumes each gate is applied as P U P on the truncated space (multi-mode active gates as a "
    "product of at most len(modes) such factors); programs whose bound exceeds 0.05 are counted as trivial. Coverage is "
    "what the generator produces: <= 7 instructions, d <= 4, cutoff <= 8."
)
RULE = (
    "cases = program documents executed on >= 2 simulators; non-trivial = at least one pairwise comparison was made with a "
    "bound <= 0.05; distinct_nontrivial = distinct structural classes (pairing, sorted gate types, mode-order patterns, d, "
    "cutoff, hbar, input kind)."
)
ASSUMPTIONS = [
    "err_j <= err_{j-1} + sqrt(1 - (|phi| - b)^2) at active steps, unchanged at number-conserving / contractive steps (DESIGN §4 C01-B)",
    "rounding: 1e-9 absolute on quantities of order one (float64)",
]
REQUIRED = ["pair_comparisons", "ledger_steps", "exact_class_comparisons", "bounded_class_comparisons", "statevector_comparisons",
            "density_matrix_comparisons"]
WATCHDOG = {"quick": 900, "thorough": 5400}

CONSERVING = {"Interferometer", "Beamsplitter", "Beamsplitter5050", "Phaseshifter", "MachZehnder", "Fourier", "Kerr", "CrossKerr", "SNAP",
              "Vacuum", "NumberState", "FockStateVector", "StateVector", "DensityMatrix", "Create", "Annihilate"}
CONTRACTIVE = {"Attenuator", "Loss", "UniformLoss", "LossyInterferometer"}
ROUND = 1e-9


class Ledger:
    """Norm ledger of one run (subscriber of the step hook)."""

    def __init__(self):
        self.b = 0.0
        self.steps = 0
        self.norm_in = None
        self.exact = True

    def _norm(self, state):
        try:
            n = state.norm
            return float(abs(n))
        except Exception:
            return None

    def on_step_pre(self, run, idx, ins, state, shots):
        if run.depth == 0:
            self.norm_in = self._norm(state)

    def on_step_post(self, run, idx, ins, state, shots, sub, exc):
        if run.depth != 0 or exc is not None:
            return
        self.steps += 1
        name = type(ins).__name__
        if name in CONSERVING or name in CONTRACTIVE:
            return
        n_out = self._norm(state)
        if n_out is None or self.norm_in is None:
            return
        self.exact = False
        k = max(1, len(ins.modes)) if name in ("GaussianTransform", "Squeezing2", "ControlledX", "ControlledZ", "Graph") else 1
        n_ref = min(self.norm_in, n_out, 1.0)
        for _ in range(k):
            x = max(0.0, n_ref - self.b)
            # the norm is known to a few ulps only, so a leak below sqrt(16 eps) = 6e-8 in amplitude is invisible in it
            # (1 - x^2 resolves 1e-16, the amplitude is its square root): that is the least a truncating gate adds
            # (false alarm of the thorough tier at 2.7e-9 with a ledger bound of exactly 0, DESIGN 7.4)
            self.b += float(np.sqrt(max(16 * np.finfo(float).eps, 1.0 - x * x)))


class Ctx:
    def __init__(self):
        self.violations = []
        self.c = {k: 0 for k in REQUIRED}
        self.c.update({"programs": 0, "trivial_bound": 0, "max_dev_over_tol": 0.0, "max_bound_used": 0.0, "simulator_raises": 0,
                       "by_pairing": {}, "not_implemented": 0})
        self.classes = set()
        self.samples = []
        self.obs = set()
        self.evals = 0

    def viol(self, mech, msg, case):
        if len(self.violations) < 150:
            self.violations.append({"mechanism": mech, "message": msg[:800], "case": case})


# --------------------------------------------------------------------------- running
def doc_for(base, sim):
    """Program document of `base` for simulator `sim` (preparation translated)."""
    from vf.gen import programs as G

    doc = {"sim": sim, "d": base["d"], "config": dict(base["config"]), "ins": [], "shots": 1}
    prep = base["prep"]
    if prep["kind"] == "vacuum":
        doc["ins"].append({"t": "Vacuum", "m": None, "p": {}})
    elif prep["kind"] == "number":
        occ = prep["occ"]
        if sim == "fock":
            doc["ins"].append({"t": "DensityMatrix", "m": None, "p": {"ket": occ, "bra": occ}})
        else:
            doc["ins"].append({"t": "NumberState", "m": None, "p": {"occupation_numbers": occ}})
    elif prep["kind"] == "superposition":
        occs, amps = prep["occs"], [complex(a[0], a[1]) for a in prep["amps"]]
        if sim == "fock":
            for i, oi in enumerate(occs):
                for j, oj in enumerate(occs):
                    doc["ins"].append({"t": "DensityMatrix", "m": None,
                                       "p": {"ket": oi, "bra": oj, "coefficient": G.enc_complex(amps[i] * np.conj(amps[j]))}})
        else:
            doc["ins"].append({"t": "FockStateVector", "m": None,
                               "p": {"fock_amplitude_map": G.enc_map({tuple(o): a for o, a in zip(occs, amps)})}})
    for g in base["gates"]:
        g2 = dict(g)
        if sim == "passive" and g["t"] == "Attenuator":
            g2 = {"t": "Loss", "m": g["m"], "p": {"transmissivity": float(np.cos(g["p"]["theta"]))}}
        doc["ins"].append(g2)
    return doc


def run_on(pq, base, sim):
    """Returns dict(state=..., b=..., steps=...) or dict(error=exc)."""
    from vf.gen import programs as G
    from vf.monitors import stephook

    hook = stephook.get().install()
    led = hook.subscribe(Ledger())
    try:
        doc = doc_for(base, sim)
        simu, prog = G.build(pq, doc)
        res = simu.execute(prog)
        return {"state": res.state, "b": led.b if sim in ("purefock", "fock") else 0.0, "steps": led.steps, "doc": doc}
    except Exception as e:
        return {"error": e}
    finally:
        hook.unsubscribe(led)


def observables(pq, sim, state, d, cutoff):
    """Comparable quantities of a final state."""
    from piquasso._math.fock import get_fock_space_basis

    out = {}
    basis = np.asarray(get_fock_space_basis(d, cutoff))
    try:
        out["probs"] = np.asarray(state.fock_probabilities, dtype=float)
    except Exception as e:
        out["probs_error"] = e
    if len(basis) <= 120:
        try:
            out["detect"] = np.array([float(np.real(state.get_particle_detection_probability(tuple(int(v) for v in occ)))) for occ in basis])
        except Exception as e:
            out["detect_error"] = e
    if sim in ("purefock", "passive"):
        try:
            out["vec"] = np.asarray(state.state_vector, dtype=complex)
        except Exception as e:
            out["vec_error"] = e
    if sim in ("gaussian", "fock", "purefock") and len(basis) <= 130:
        try:
            out["rho"] = np.asarray(state.density_matrix, dtype=complex)
        except Exception as e:
            out["rho_error"] = e
    return out


def compare(ctx, pq, base, pairing, sims):
    from piquasso.api.exceptions import NotImplementedCalculation
    from vf.gen import programs as G

    ctx.c["programs"] += 1
    ctx.evals += 1
    d, cutoff = base["d"], base["config"]["cutoff"]
    runs = {}
    for sim in sims:
        r = run_on(pq, base, sim)
        if "error" in r:
            e = r["error"]
            if isinstance(e, NotImplementedCalculation):
                ctx.c["not_implemented"] += 1
                continue
            ctx.c["simulator_raises"] += 1
            ctx.viol("simulator-raises:%s:%s" % (sim, type(e).__name__),
                     "%s raised %s on a supported program: %s" % (sim, type(e).__name__, str(e)[:200]), {"base": base, "pairing": pairing, "sim": sim})
            continue
        r["obs"] = observables(pq, sim, r["state"], d, cutoff)
        ctx.c["ledger_steps"] += r["steps"]
        runs[sim] = r
    names = list(runs)
    compared = False
    for i in range(len(names)):
        for j in range(i + 1, len(names)):
            a, b = names[i], names[j]
            bound = runs[a]["b"] + runs[b]["b"]
            if bound > 0.05:
                ctx.c["trivial_bound"] += 1
                continue
            ctx.c["max_bound_used"] = max(ctx.c["max_bound_used"], bound)
            for key, kind, tolfun in (("probs", "probabilities", lambda b_: 2 * b_ + b_ * b_), ("detect", "detection probability", lambda b_: 2 * b_ + b_ * b_),
                                      ("vec", "state vector", lambda b_: b_), ("rho", "density matrix", lambda b_: 2 * b_ + b_ * b_)):
                if key not in runs[a]["obs"] or key not in runs[b]["obs"]:
                    continue
                xa, xb = runs[a]["obs"][key], runs[b]["obs"][key]
                if xa.shape != xb.shape:
                    ctx.viol("shape-differs:%s" % key, "%s of %s has shape %s, of %s shape %s" % (kind, a, xa.shape, b, xb.shape),
                             {"base": base, "pairing": pairing, "pair": [a, b]})
                    continue
                tol = tolfun(bound) + ROUND
                dev = float(np.max(np.abs(xa - xb))) if xa.size else 0.0
                ctx.c["pair_comparisons"] += 1
                compared = True
                if key == "vec":
                    ctx.c["statevector_comparisons"] += 1
                if key == "rho":
                    ctx.c["density_matrix_comparisons"] += 1
                if bound == 0.0:
                    ctx.c["exact_class_comparisons"] += 1
                else:
                    ctx.c["bounded_class_comparisons"] += 1
                if dev <= tol:
                    ctx.c["max_dev_over_tol"] = max(ctx.c["max_dev_over_tol"], dev / tol)
                ctx.c["by_pairing"][pairing] = ctx.c["by_pairing"].get(pairing, 0) + 1
                if not (dev <= tol):
                    idx = int(np.argmax(np.abs(xa - xb)))
                    mech = "%s-differ:%s-vs-%s" % (key, a, b)
                    if key == "probs" and "passive" in (a, b) and _is_lossy_table_defect(runs, a, b, tol):
                        mech = "passive-lossy-probability-table-conjugation"
                    ctx.viol(mech,
                             "%s differ between %s and %s: max |diff| = %.3e > tol %.3e (ledger bound %.2e) at flat index %d (%s vs %s); program %s" % (
                                 kind, a, b, dev, tol, bound, idx, xa.ravel()[idx], xb.ravel()[idx], [[g["t"], g["m"]] for g in base["gates"]]),
                             {"base": base, "pairing": pairing, "pair": [a, b]})
    # each simulator's own interfaces must agree with each other as well (probs vs detect)
    for s in names:
        o = runs[s]["obs"]
        if "probs" in o and "detect" in o and o["probs"].shape == o["detect"].shape:
            dev = float(np.max(np.abs(o["probs"] - o["detect"]))) if o["probs"].size else 0.0
            ctx.c["pair_comparisons"] += 1
            if dev > ROUND:
                mech = "probs-vs-detection:%s" % s
                if s == "passive" and _passive_is_complex_lossy(runs[s]["state"]):
                    mech = "passive-lossy-probability-table-conjugation"
                ctx.viol(mech, "%s: fock_probabilities and get_particle_detection_probability differ by %.3e" % (s, dev),
                         {"base": base, "pairing": pairing, "pair": [s, s]})
    if compared:
        pats = sorted({G.mode_pattern(g["m"]) for g in base["gates"] if g.get("m")})
        ctx.classes.add("%s|d%d|c%d|h%s|%s|%s|%s" % (pairing, d, cutoff, base["config"]["hbar"], base["prep"]["kind"],
                                                     ",".join(sorted(g["t"] for g in base["gates"])), "/".join(pats)))
        if len(ctx.samples) < 4:
            ctx.samples.append({"pairing": pairing, "sims": names, "d": d, "cutoff": cutoff, "hbar": base["config"]["hbar"],
                                "gates": [[g["t"], g["m"]] for g in base["gates"]], "bounds": {s: runs[s]["b"] for s in names}})


def _passive_is_complex_lossy(state):
    try:
        T = np.asarray(state.interferometer)
        return bool(state.is_lossy) and float(np.abs(T.imag).max()) > 1e-9
    except Exception:
        return False


def _is_lossy_table_defect(runs, a, b, tol):
    """Known defect: the probability *table* of a lossy PassiveState with a complex transmission
    matrix is wrong (conjugation slip in the loss kernel) while its single-outcome interface is
    right. Symptom: the passive state is lossy with complex T, and the passive single-outcome
    probabilities agree with the other simulator."""
    p, o = (a, b) if a == "passive" else (b, a)
    if not _passive_is_complex_lossy(runs[p]["state"]):
        return False
    po, oo = runs[p]["obs"], runs[o]["obs"]
    if "detect" not in po or "probs" not in oo or po["detect"].shape != oo["probs"].shape:
        return False
    return bool(np.max(np.abs(po["detect"] - oo["probs"])) <= tol)


# --------------------------------------------------------------------------- generators
HBARS = [0.37, 1.0, 2.0, 3.3]


def gen_base(rng, pairing):
    from vf.gen import programs as G

    hbar = float(rng.choice(HBARS))
    if pairing == "gaussian-fock":
        # large cutoffs on few modes keep the ledger bound small (1e-6..1e-3), so that small effects
        # (a dropped conjugation acting on a displaced mean, ...) are not masked by the bound
        # (the amplitude bound is the square root of the leaked norm, so it only becomes tight - 1e-5 and
        # below - when the leak itself is ~1e-10: cutoffs 14-20 for r <= 0.2, |alpha| <= 0.4)
        choices = [(1, 20), (1, 12), (2, 16), (2, 14), (2, 10), (3, 9), (3, 7), (1, 3), (2, 4), (1, 1), (2, 2)]
        d, cutoff = choices[int(rng.choice(len(choices), p=[0.08, 0.06, 0.24, 0.2, 0.1, 0.12, 0.06, 0.04, 0.04, 0.03, 0.03]))]
        pool = list(G.PASSIVE_GATES) + [g for g in G.ACTIVE_GATES if not g.startswith("Controlled")] + list(G.DISPLACEMENTS)
        n = int(rng.integers(1, 7))
        gates = []
        exact_class = rng.random() < 0.5
        active_seen = False
        for _ in range(n):
            name = str(rng.choice(pool))
            is_active = name not in G.PASSIVE_GATES
            if exact_class and active_seen and is_active:
                name = str(rng.choice(G.PASSIVE_GATES))
                is_active = False
            g = G.gate(rng, name, d, active_scale=0.2, disp_scale=0.4)
            if g is None:
                continue
            active_seen = active_seen or is_active
            gates.append(g)
        return {"d": d, "config": {"cutoff": cutoff, "hbar": hbar}, "prep": {"kind": "vacuum"}, "gates": gates}, ["gaussian", "purefock", "fock"]
    if pairing == "number-passive":
        d = int(rng.integers(1, 5))
        nph = int(rng.integers(0, 5 if d < 4 else 4))
        cutoff = nph + 1 + int(rng.integers(0, 3))
        if rng.random() < 0.35 and nph > 0:
            _, occs, amps = G.superposition(rng, d, nph, terms=int(rng.integers(2, 4)), same_n=rng.random() < 0.5)
            cutoff = max(sum(o) for o in occs) + 1 + int(rng.integers(0, 2))
            prep = {"kind": "superposition", "occs": occs, "amps": [[a.real, a.imag] for a in amps]}
        else:
            occ = G.number_state(rng, d, nph, bunched=rng.random() < 0.3)
            cutoff = sum(occ) + 1 + int(rng.integers(0, 3))
            prep = {"kind": "number", "occ": occ}
        pool = list(G.PASSIVE_GATES) + ["Kerr", "CrossKerr"]
        gates = []
        for _ in range(int(rng.integers(1, 7))):
            g = G.gate(rng, str(rng.choice(pool)), d)
            if g is not None:
                gates.append(g)
        sims = ["purefock", "passive"]
        if d <= 3 and cutoff <= 6:
            sims.append("fock")
        return {"d": d, "config": {"cutoff": cutoff, "hbar": hbar}, "prep": prep, "gates": gates}, sims
    if pairing == "fock-all":
        d = int(rng.integers(1, 4))
        cutoff = int(rng.integers(2, 8 if d < 3 else 7))
        occ = G.number_state(rng, d, min(2, cutoff - 1))
        prep = {"kind": "number", "occ": occ} if rng.random() < 0.6 else {"kind": "vacuum"}
        pool = list(G.PASSIVE_GATES) + ["Kerr", "CrossKerr", "SNAP", "Squeezing", "Displacement", "QuadraticPhase", "Squeezing2",
                                        "GaussianTransform", "CubicPhase", "PositionDisplacement", "MomentumDisplacement"]
        gates = []
        for _ in range(int(rng.integers(1, 6))):
            g = G.gate(rng, str(rng.choice(pool)), d, active_scale=0.12, disp_scale=0.2, cutoff=cutoff)
            if g is not None:
                gates.append(g)
        return {"d": d, "config": {"cutoff": cutoff, "hbar": hbar}, "prep": prep, "gates": gates}, ["purefock", "fock"]
    if pairing == "attenuation":
        d = int(rng.integers(1, 4))
        cutoff = int(rng.integers(5, 8))
        gates = []
        for _ in range(int(rng.integers(1, 5))):
            name = str(rng.choice(list(G.PASSIVE_GATES) + ["Squeezing", "Displacement", "Attenuator", "Attenuator"]))
            g = G.gate(rng, name, d, active_scale=0.15, disp_scale=0.25)
            if g is not None:
                gates.append(g)
        if not any(g["t"] == "Attenuator" for g in gates):
            gates.append(G.gate(rng, "Attenuator", d))
        return {"d": d, "config": {"cutoff": cutoff, "hbar": hbar}, "prep": {"kind": "vacuum"}, "gates": gates}, ["gaussian", "fock"]
    if pairing == "loss":
        d = int(rng.integers(1, 4))
        occ = G.number_state(rng, d, 3)
        cutoff = sum(occ) + 1
        gates = []
        for _ in range(int(rng.integers(1, 5))):
            name = str(rng.choice(list(G.PASSIVE_GATES) + ["Attenuator"]))
            g = G.gate(rng, name, d)
            if g is not None:
                if g["t"] == "Attenuator":
                    g["p"]["theta"] = float(rng.uniform(0, np.pi / 2))
                gates.append(g)
        if not any(g["t"] == "Attenuator" for g in gates):
            g = G.gate(rng, "Attenuator", d)
            g["p"]["theta"] = float(rng.uniform(0, np.pi / 2))
            gates.append(g)
        return {"d": d, "config": {"cutoff": cutoff, "hbar": hbar}, "prep": {"kind": "number", "occ": occ}, "gates": gates}, ["passive", "fock"]
    raise KeyError(pairing)


PAIRINGS = ["gaussian-fock", "number-passive", "fock-all", "attenuation", "loss"]


def plan(tier, seed):
    n = 15 if tier == "quick" else 16
    per = 60 if tier == "quick" else 800
    return [{"name": "%s-%d" % (PAIRINGS[i % len(PAIRINGS)], i), "pairing": PAIRINGS[i % len(PAIRINGS)], "shard": i, "count": per,
             "env": {"OPENBLAS_NUM_THREADS": "1", "OMP_NUM_THREADS": "1", "NUMBA_NUM_THREADS": "2"}} for i in range(n)]


def run_shard(spec):
    from vf import boot

    pq = boot.import_piquasso()
    rng = np.random.default_rng([int(spec["seed"]), 1, int(spec["shard"])])
    ctx = Ctx()
    t0 = time.time()
    budget = 140 if spec["tier"] == "quick" else 1500
    for i in range(int(spec["count"])):
        if time.time() - t0 > budget:
            ctx.obs.add("shard stopped by time budget after %d programs" % i)
            break
        base, sims = gen_base(rng, spec["pairing"])
        compare(ctx, pq, base, spec["pairing"], sims)
    # quiescent point: cached Fock bases must be intact
    from piquasso._math import fock

    for d in range(1, 5):
        for c in range(1, 7):
            if not np.array_equal(fock.get_fock_space_basis(d, c), fock.nb_get_fock_space_basis(d, c)):
                ctx.viol("cached-basis-corrupted", "cached Fock basis (d=%d, cutoff=%d) modified during the workload" % (d, c), {"d": d, "cutoff": c})
    return {"evaluations": ctx.evals, "classes": sorted(ctx.classes), "violations": ctx.violations,
            "counters": ctx.c, "samples": ctx.samples, "observations": sorted(ctx.obs)[:20]}


def replay(case):
    from vf import boot

    pq = boot.import_piquasso()
    ctx = Ctx()
    if "base" in case:
        sims = {"gaussian-fock": ["gaussian", "purefock", "fock"], "number-passive": ["purefock", "passive", "fock"],
                "fock-all": ["purefock", "fock"], "attenuation": ["gaussian", "fock"], "loss": ["passive", "fock"]}[case["pairing"]]
        compare(ctx, pq, case["base"], case["pairing"], sims)
    return ctx.violations
