"""C05 - passive-state probability interfaces agree with each other and with a unitary dilation.

Monitor: *interface recorder* on the PassiveState that the step hook hands out after the last
instruction of a PassiveSimulator run. It calls every probability interface of the state

    get_particle_detection_probability(n)   for every occupation n of the (post-selected) basis
    fock_probabilities / fock_probabilities_map
    get_marginal_fock_probabilities(modes)  for every non-empty subset of the remaining modes
    state_vector / state_vector_map / norm  where defined

and records value / NotImplementedCalculation ("not offered", allowed) / any other exception
(violation).

Oracles
  (i)  mutual consistency: table[n] == single(n); marginals == sums of the table; |state_vector|^2
       == table; all probabilities >= 0 and real; sum == 1 or == the post-selection success
       probability; norm == sum of the table.
  (ii) reference (vf/refs/passive_dilation.py): the transmission matrix T is composed *in the
       harness* from the instruction documents, completed to a 2d-mode unitary and run on
       PureFockSimulator with vacuum ancillas (traced out); partial distinguishability is the
       internal-mode model (G = V^+ V, photon i in internal state v_i, interferometer (x) 1_k,
       detectors blind to the label). Overlap 1 must also equal the permanent formula and overlap 0
       the classical (multinomial) particles, both evaluated in the harness.
  Tolerance 1e-9 absolute on probabilities (quantities of order one, sums of <= 4!*2^4 products of
  matrix entries of modulus <= 1: 1e-9 >= 1e6 * eps * scale). Imaginary parts <= 1e-11: the
  single-outcome interface returns np.real_if_close of a loop-hafnian sum (up to ~1e2-1e3 addends of
  modulus <= 1 per pair of input terms), so rounding leaves up to ~1e3 * eps * (number of term pairs);
  1e-11 = 5e4 eps keeps a factor >= 10 above that (largest value seen: 2e-13), a real conjugation
  slip leaves 1e-3..1e-1.
"""

import itertools
import math
import time
import traceback

import numpy as np

ID = "C05"
LEVEL = "exploration"
TECHNIQUE = ("runtime monitoring: interface recorder on the PassiveState captured by the step hook after the last instruction; "
             "cross-interface consistency plus differential comparison with a unitary dilation / internal-mode model run on "
             "the pure Fock simulator")
DESIGN_REF = "DESIGN.md §4 C05"
LEVEL_TEXT = (
    "Random boson-sampling programs (n<=4 photons incl. bunched inputs, d<=4 modes; number states, superpositions, scalar "
    "overlaps {0,0.25,0.7,1} and real/complex Gram matrices of rank 1..n; transmission matrices U diag(s) V with Haar or real "
    "orthogonal U, V and singular values from {0,0.3,0.8,1} mixtures built through Loss, UniformLoss and LossyInterferometer "
    "on ordered mode subsets interleaved with lossless gates; PostSelectPhotons on 1-2 modes mid-circuit or at the end) run "
    "on PassiveSimulator. Every probability interface of the final state is called for every argument of its domain; the "
    "answers must agree with each other and with the dilation reference to 1e-9."
)
LEVEL_NOTE = (
    "Sampled, not exhaustive; numpy connector, float64. The cutoff is given explicitly (n+1..n+3) because "
    "DistinguishableNumberState does not infer it (recorded as an observation). NotImplementedCalculation is counted as 'not "
    "offered' per interface and feature combination, never judged. Kerr / CrossKerr and ImperfectPostSelectPhotons are not "
    "part of the property. The wrong-kernel formula in this module is a symptom predicate for known findings only and never "
    "decides whether a value is right."
)
RULE = (
    "cases = final PassiveStates whose interfaces were recorded; non-trivial = at least one interface returned values that "
    "were compared with the reference; distinct_nontrivial = distinct (input kind, bunched, loss style, uniformity, complex/"
    "real, number and placement of post-selections, overlap kind, d, n) classes among them."
)
ASSUMPTIONS = [
    "PureFockSimulator with Interferometer and FockStateVector is exact on the n-photon sector at cutoff n+1 (C01), and an interferometer M acts as a+_p -> sum_i M[i,p] a+_i",
    "post-selected modes are not addressed afterwards, so a mid-circuit post-selection equals the projection of the final distribution",
    "mode arguments of get_marginal_fock_probabilities are original mode labels (the method refuses 'postselected modes' by label)",
    "Beamsplitter / Phaseshifter matrices are the documented ones (checked by C07)",
]
REQUIRED = ["states_recorded", "hook_steps", "cmp_table_vs_single", "cmp_marginal_vs_table", "cmp_statevector_vs_table",
            "cmp_single_vs_ref", "cmp_table_vs_ref", "cmp_marginal_vs_ref", "cmp_statevector_vs_ref", "cmp_sum_rule",
            "closed_form_checks"]
WATCHDOG = {"quick": 1800, "thorough": 5400}

TOL = 1e-9
IMAG_TOL = 1e-11
NEG_TOL = 1e-11

KNOWN_TABLE = "passive-lossy-probability-table-conjugation"
KNOWN_SUPER = "passive:lossy-probability-of-superposition-conjugated"
KEY_DIST_KERNEL = "passive:general-probability-formula-detected-kernel-conjugated"
KEY_POST_TABLE = "passive:postselected-lossy-or-distinguishable-table-basis-reduced-twice"
KEY_POST_SUPER = "passive:postselected-superposition-state-vector-terms-misaligned"

S_VALUES = [0.0, 0.3, 0.8, 1.0]
OVERLAPS = [0.0, 0.25, 0.7, 1.0]


class Ctx:
    def __init__(self):
        self.violations = []
        self.c = {k: 0 for k in REQUIRED}
        self.c.update({"cmp_norm": 0, "cmp_nonnegativity": 0, "cmp_imaginary": 0, "values_compared": 0,
                       "max_dev_over_tol": 0.0, "max_imag_over_tol": 0.0, "interface_raises": 0,
                       "known_symptom_matches": 0, "zero_probability_postselections": 0,
                       "not_offered": {}, "by_feature": {}, "offered": {}, "violations_by_mechanism": {}})
        self.classes = set()
        self.samples = []
        self.obs = set()
        self.evals = 0

    def viol(self, mech, msg, case):
        # every violation is counted; at most 5 cases per mechanism are kept per shard so that a frequent
        # (known) mechanism cannot crowd out a rare one
        self.bump("violations_by_mechanism", mech)
        if self.c["violations_by_mechanism"][mech] <= 5 and len(self.violations) < 400:
            self.violations.append({"mechanism": mech, "message": msg[:900], "case": case})

    def bump(self, name, key, k=1):
        d = self.c[name]
        d[key] = d.get(key, 0) + k


class Capture:
    """Step-hook subscriber: keeps the state handed out by the last step of the outermost run."""

    def __init__(self):
        self.steps = 0
        self.state = None
        self.types = []

    def on_step_post(self, run, idx, ins, state, shots, sub, exc):
        if run.depth != 0 or exc is not None:
            return
        self.steps += 1
        self.types.append(type(ins).__name__)
        try:
            self.state = sub[0].state
        except Exception:
            self.state = state


# --------------------------------------------------------------------------- generators
def _unitary(rng, k, real):
    from vf.gen import matrices as M

    return M.haar_orthogonal(rng, k).astype(complex) if real else M.haar_unitary(rng, k)


def _svals(rng, k, uniform=None):
    r = rng.random()
    if uniform is True or (uniform is None and r < 0.2):
        return np.full(k, float(rng.choice([0.3, 0.8, 1.0, 0.0], p=[0.4, 0.4, 0.1, 0.1])))
    if r < 0.6:
        return np.array([float(x) for x in rng.choice(S_VALUES, size=k)])
    if r < 0.8:
        s = np.array([float(x) for x in rng.choice([0.3, 0.8], size=k)])
        s[int(rng.integers(0, k))] = float(rng.choice([0.0, 1.0]))
        return s
    return rng.uniform(0, 1, size=k)


def _lossless_item(rng, real):
    r = rng.random()
    if r < 0.55:
        return {"k": "interf"}
    if r < 0.85 or real:
        return {"k": "bs"}
    return {"k": "ps"}


LOSS_RECIPES = ["svd", "lossyint-all", "lossyint-sub", "uniform-all", "uniform-sub", "loss-single", "uniform-lossyint", "mixed"]


def _recipe_items(rng, recipe, real):
    ll = lambda lo, hi: [_lossless_item(rng, real) for _ in range(int(rng.integers(lo, hi + 1)))]
    if recipe == "none":
        return ll(1, 3)
    if recipe == "svd":
        return [{"k": "interf", "all": True}, {"k": "loss-each"}, {"k": "interf", "all": True}]
    if recipe == "lossyint-all":
        return ll(0, 1) + [{"k": "lossyint", "all": True}] + ll(0, 1)
    if recipe == "lossyint-sub":
        return ll(1, 2) + [{"k": "lossyint", "all": False}] + ll(0, 2)
    if recipe == "uniform-all":
        return ll(1, 2) + [{"k": "uloss", "all": True}] + ll(0, 2)
    if recipe == "uniform-sub":
        return ll(1, 2) + [{"k": "uloss", "all": False}] + ll(1, 2)
    if recipe == "loss-single":
        return ll(1, 2) + [{"k": "loss1"}] + ll(0, 2) + ([{"k": "loss1"}] if rng.random() < 0.4 else [])
    if recipe == "uniform-lossyint":
        return ll(0, 1) + [{"k": "lossyint", "all": True, "uniform": True}] + ll(0, 1)
    pool = [{"k": "lossyint", "all": False}, {"k": "uloss", "all": False}, {"k": "uloss", "all": True}, {"k": "loss1"},
            {"k": "loss-each"}, {"k": "interf"}, {"k": "bs"}, {"k": "interf", "all": True}]
    items = [dict(pool[int(rng.integers(0, len(pool)))]) for _ in range(int(rng.integers(2, 6)))]
    if not any(i["k"] in ("lossyint", "uloss", "loss1", "loss-each") for i in items):
        items.append({"k": "loss1"})
    return items


def _materialise(rng, item, active, real):
    """Instruction documents of one abstract item on the currently active (original) mode labels."""
    from vf.gen import matrices as M
    from vf.gen import programs as G

    na = len(active)
    k = item["k"]
    if k == "interf":
        kk = na if item.get("all") else int(rng.integers(1, na + 1))
        modes = [active[i] for i in G.ordered_subset(rng, na, kk)]
        if item.get("all") and rng.random() < 0.4:
            modes = sorted(modes)
        return [{"t": "Interferometer", "m": modes, "p": {"matrix": M.enc(_unitary(rng, kk, real))}}]
    if k == "bs":
        if na < 2:
            return [{"t": "Interferometer", "m": [active[0]], "p": {"matrix": M.enc(_unitary(rng, 1, real))}}]
        modes = [active[i] for i in G.ordered_subset(rng, na, 2)]
        phi = float(rng.choice([0.0, np.pi])) if real else G.angle(rng)
        return [{"t": "Beamsplitter", "m": modes, "p": {"theta": G.angle(rng), "phi": phi}}]
    if k == "ps":
        return [{"t": "Phaseshifter", "m": [active[int(rng.integers(0, na))]], "p": {"phi": G.angle(rng)}}]
    if k == "loss1":
        return [{"t": "Loss", "m": [active[int(rng.integers(0, na))]], "p": {"transmissivity": float(rng.choice(S_VALUES, p=[0.15, 0.35, 0.35, 0.15]))}}]
    if k == "loss-each":
        s = _svals(rng, na)
        order = [int(i) for i in rng.permutation(na)]
        return [{"t": "Loss", "m": [active[i]], "p": {"transmissivity": float(s[i])}} for i in order]
    if k == "uloss":
        t = float(rng.choice([0.3, 0.8, 1.0, 0.0], p=[0.4, 0.4, 0.1, 0.1]))
        if item.get("all"):
            modes = None if rng.random() < 0.5 else [active[i] for i in G.ordered_subset(rng, na, na)]
        else:
            kk = int(rng.integers(1, max(2, na)))
            modes = [active[i] for i in G.ordered_subset(rng, na, min(kk, na))]
        return [{"t": "UniformLoss", "m": modes, "p": {"transmissivity": t}}]
    if k == "lossyint":
        kk = na if item.get("all") else int(rng.integers(1, max(2, na)))
        kk = min(kk, na)
        s = _svals(rng, kk, uniform=True if item.get("uniform") else None)
        T = _unitary(rng, kk, real) @ np.diag(s) @ _unitary(rng, kk, real)
        if item.get("all") and rng.random() < 0.5:
            modes = None
        else:
            modes = [active[i] for i in G.ordered_subset(rng, na, kk)]
            if item.get("all") and rng.random() < 0.5:
                modes = sorted(modes)
        return [{"t": "LossyInterferometer", "m": modes, "p": {"matrix": M.enc(T)}}]
    raise KeyError(k)


def gen_gates(rng, d, nmax, recipe, real, n_post):
    """Gate documents (original mode labels) with n_post post-selected modes placed mid-circuit or last."""
    from vf.gen import programs as G

    items = _recipe_items(rng, recipe, real)
    n_post = min(n_post, d - 1)
    # post-selection events: positions in 1..len(items) (after at least one item)
    events = []
    if n_post:
        joint = n_post == 2 and rng.random() < 0.5
        budget = nmax
        counts = []
        for _ in range(n_post):
            c = int(rng.choice([0, 1, 2], p=[0.4, 0.45, 0.15]))
            c = min(c, budget)
            budget -= c
            counts.append(c)
        if joint:
            events.append((int(rng.integers(1, len(items) + 1)), counts))
        else:
            for c in counts:
                events.append((int(rng.integers(1, len(items) + 1)), [c]))
        events.sort(key=lambda e: e[0])
    active = list(range(d))
    gates = []
    placement = []
    for pos, item in enumerate(items):
        gates.extend(_materialise(rng, item, active, real))
        for epos, counts in events:
            if epos == pos + 1:
                modes = [active[i] for i in G.ordered_subset(rng, len(active), len(counts))]
                gates.append({"t": "PostSelectPhotons", "m": modes, "p": {"photon_counts": [int(c) for c in counts]}})
                active = [a for a in active if a not in modes]
                placement.append("end" if pos + 1 == len(items) else "mid")
    return gates, placement


def gen_case(rng, family, tier):
    from vf.gen import matrices as M
    from vf.gen import programs as G

    d = int(rng.choice([1, 2, 3, 4], p=[0.06, 0.24, 0.4, 0.3]))
    n = int(rng.choice([0, 1, 2, 3, 4], p=[0.03, 0.12, 0.3, 0.33, 0.22]))
    real = bool(rng.random() < 0.3)
    lossy = rng.random() < 0.7
    recipe = str(rng.choice(LOSS_RECIPES)) if lossy else "none"
    n_post = int(rng.choice([0, 1, 2], p=[0.5, 0.32, 0.18]))
    if d == 1:
        n_post = 0

    def occupation(n_):
        occ = [0] * d
        r = rng.random()
        if r < 0.2 and n_ >= 2:
            occ[int(rng.integers(0, d))] = n_
        elif r < 0.4 and n_ >= 2:
            occ[int(rng.integers(0, d))] = 2
            for _ in range(n_ - 2):
                occ[int(rng.integers(0, d))] += 1
        else:
            for _ in range(n_):
                occ[int(rng.integers(0, d))] += 1
        return occ

    if family == "number":
        occ = occupation(n)
        prep = {"kind": "number", "occ": occ}
        nmax = n
    elif family == "superposition":
        n = max(n, 1)
        terms = int(rng.integers(2, 4))
        same = rng.random() < 0.55
        occs = []
        for _ in range(12):
            o = occupation(n if same else int(rng.integers(0, n + 1)))
            if o not in occs:
                occs.append(o)
            if len(occs) == terms:
                break
        amps = rng.normal(size=len(occs)) + (0 if rng.random() < 0.15 else 1j) * rng.normal(size=len(occs))
        amps = amps / np.linalg.norm(amps)
        prep = {"kind": "superposition", "occs": occs, "amps": [[float(np.real(a)), float(np.imag(a))] for a in amps]}
        nmax = max(sum(o) for o in occs)
    elif family == "dist-scalar":
        n = max(n, 1)
        occ = occupation(n)
        prep = {"kind": "dist", "occ": occ, "overlap": float(rng.choice(OVERLAPS, p=[0.22, 0.3, 0.3, 0.18])), "gram_kind": "scalar"}
        nmax = n
    elif family == "dist-gram":
        n = max(n, 1)
        occ = occupation(n)
        r = rng.random()
        if r < 0.08:
            Gm, kind = np.ones((n, n), dtype=complex), "ones"
        elif r < 0.16:
            Gm, kind = np.eye(n, dtype=complex), "identity"
        elif r < 0.26:
            ph = np.exp(1j * rng.uniform(0, 2 * np.pi, size=n))
            Gm, kind = np.outer(ph.conj(), ph), "rank1-phases"
        else:
            is_real = bool(rng.random() < 0.4)
            rank = int(rng.integers(1, n + 1))
            Gm, _ = M.random_gram(rng, n, rank=rank, real=is_real)
            Gm = np.asarray(Gm, dtype=complex)
            kind = "%s-rank%d" % ("real" if is_real else "complex", rank)
        Gm = (Gm + Gm.conj().T) / 2
        np.fill_diagonal(Gm, 1.0)
        prep = {"kind": "dist", "occ": occ, "gram": M.enc(Gm), "gram_kind": kind}
        nmax = n
    else:
        raise KeyError(family)
    gates, placement = gen_gates(rng, d, nmax, recipe, real, n_post)
    cutoff = nmax + 1 + int(rng.choice([0, 1, 2], p=[0.6, 0.25, 0.15]))
    return {"family": family, "d": d, "cutoff": cutoff, "prep": prep, "gates": gates, "recipe": recipe, "real": real,
            "post_placement": placement}


# --------------------------------------------------------------------------- program / reference
def program_doc(case):
    from vf.gen import programs as G

    prep = case["prep"]
    if prep["kind"] == "number":
        first = {"t": "NumberState", "m": None, "p": {"occupation_numbers": prep["occ"]}}
    elif prep["kind"] == "superposition":
        amps = [complex(a[0], a[1]) for a in prep["amps"]]
        first = {"t": "FockStateVector", "m": None, "p": {"fock_amplitude_map": G.enc_map({tuple(o): a for o, a in zip(prep["occs"], amps)})}}
    else:
        ov = prep["gram"] if "gram" in prep else prep["overlap"]
        first = {"t": "DistinguishableNumberState", "m": None, "p": {"occupation_numbers": prep["occ"], "particle_overlap": ov}}
    return {"sim": "passive", "d": case["d"], "config": {"cutoff": case["cutoff"]}, "ins": [first] + list(case["gates"]), "shots": 1}


def transmission(case):
    """(T composed in the harness, post-selection {mode: count}, any lossy instruction?)."""
    from vf.gen import matrices as M
    from vf.refs import passive_dilation as R

    d = case["d"]
    T = np.eye(d, dtype=complex)
    post = {}
    lossy = False
    for g in case["gates"]:
        active = [m for m in range(d) if m not in post]
        modes = active if g["m"] is None else list(g["m"])
        t = g["t"]
        if t == "PostSelectPhotons":
            for m, c in zip(modes, g["p"]["photon_counts"]):
                post[int(m)] = int(c)
            continue
        if t == "Interferometer":
            block = M.dec(g["p"]["matrix"])
        elif t == "Beamsplitter":
            block = R.beamsplitter_matrix(g["p"]["theta"], g["p"]["phi"])
        elif t == "Phaseshifter":
            block = np.array([[np.exp(1j * g["p"]["phi"])]])
        elif t == "Loss":
            block, lossy = np.array([[g["p"]["transmissivity"]]], dtype=complex), True
        elif t == "UniformLoss":
            block, lossy = g["p"]["transmissivity"] * np.eye(len(modes), dtype=complex), True
        elif t == "LossyInterferometer":
            block, lossy = M.dec(g["p"]["matrix"]), True
        else:
            raise KeyError(t)
        T = R.embed(d, block, modes) @ T
    return T, post, lossy


def input_terms(case):
    prep = case["prep"]
    if prep["kind"] == "superposition":
        return [(list(o), complex(a[0], a[1])) for o, a in zip(prep["occs"], prep["amps"])]
    return [(list(prep["occ"]), 1.0 + 0j)]


def gram_of(case):
    from vf.gen import matrices as M
    from vf.refs import passive_dilation as R

    prep = case["prep"]
    n = int(sum(prep["occ"]))
    if "gram" in prep:
        return np.asarray(M.dec(prep["gram"]), dtype=complex)
    return R.uniform_gram(n, float(prep["overlap"]))


class HarnessError(Exception):
    pass


def reference(pq, case, T, lossy, conj_amps=False):
    """Full distribution over the d original modes; for lossless indistinguishable inputs also the
    amplitude map. Self-checks of the reference raise HarnessError (never a violation)."""
    from vf.refs import passive_dilation as R

    prep = case["prep"]
    d = case["d"]
    info = {}
    if lossy:
        dd = R.dilation_defect(R.dilation(T), T)
        if dd > 1e-12:
            raise HarnessError("dilation is not a unitary completion of T: defect %.3e" % dd)
    else:
        un = float(np.abs(T.conj().T @ T - np.eye(d)).max())
        if un > 1e-12:
            raise HarnessError("lossless transmission matrix is not unitary: %.3e" % un)
    if prep["kind"] == "dist":
        dist, inf = R.internal_mode_distribution(pq, T, prep["occ"], gram_of(case), lossless=not lossy)
        info.update(inf)
    else:
        terms = input_terms(case)
        if conj_amps:
            terms = [(o, np.conj(a)) for o, a in terms]
        dist, inf = R.dilation_distribution(pq, T, terms, lossless=not lossy)
        info.update(inf)
    if abs(info["total"] - 1.0) > 1e-10:
        raise HarnessError("reference distribution sums to %.15g" % info["total"])
    return dist, info


def wrong_kernel_formula(T, occ, Gm):
    """SYMPTOM PREDICATE ONLY - never an oracle. Coefficients
        [x^s] Per( G o (1 - T^+T)_in + sum_m x_m G o (t_m t_m^+) ) / Z,     t_m = T[m, input modes],
    i.e. the general loss / distinguishability formula as the library evaluates it (brute force over
    permutations here, Ryser there). The internal-mode model gives G o (conj(t_m) t_m^T) for the detected
    kernels (validated to 1e-15 against the reference); with t_m t_m^+ the detected kernels are conjugated
    relative to the Gram matrix and the loss kernel, which is invisible for real T, and for real G as long
    as T^+T is real on the input modes. Returns {s: value}."""
    from vf.refs import passive_dilation as R

    T = np.asarray(T, dtype=complex)
    d = T.shape[0]
    inm = R.photon_modes(occ)
    n = len(inm)
    if n == 0:
        return {(0,) * d: 1.0}
    K = (np.eye(d) - T.conj().T @ T)[np.ix_(inm, inm)]
    const = Gm * K
    lin = [Gm * np.outer(T[m, inm], np.conj(T[m, inm])) for m in range(d)]
    total = {}
    for perm in itertools.permutations(range(n)):
        poly = {(0,) * d: 1.0 + 0j}
        for i in range(n):
            j = perm[i]
            new = {}
            for key, v in poly.items():
                c = const[i, j]
                if c != 0:
                    new[key] = new.get(key, 0) + v * c
                for m in range(d):
                    b = lin[m][i, j]
                    if b == 0:
                        continue
                    lst = list(key)
                    lst[m] += 1
                    kk = tuple(lst)
                    new[kk] = new.get(kk, 0) + v * b
            poly = new
        for key, v in poly.items():
            total[key] = total.get(key, 0) + v
    Z = 1.0
    start = 0
    for c in occ:
        c = int(c)
        if c > 1:
            blk = Gm[start:start + c, start:start + c]
            Z *= sum(np.prod([blk[i, p[i]] for i in range(c)]) for p in itertools.permutations(range(c))).real
        start += c
    return {k: float(np.real(v)) / Z for k, v in total.items()}


# --------------------------------------------------------------------------- recorder
def _basis(d_act, cutoff):
    from vf.refs import passive_dilation as R

    out = []
    for k in range(max(0, cutoff)):
        out.extend(R.compositions(k, d_act))
    return out


def _key(t):
    return tuple(int(x) for x in t)


def _frame(exc):
    tb = traceback.extract_tb(exc.__traceback__)
    for fr in reversed(tb):
        if "/piquasso/" in fr.filename:
            return "%s:%s" % (fr.filename.split("/piquasso/")[-1], fr.name)
    return "?"


def _frames(exc):
    return [fr.name for fr in traceback.extract_tb(exc.__traceback__) if "/piquasso/" in fr.filename]


def _call(fn):
    """('ok', value) | ('not-offered', exc) | ('raised', exc)."""
    from piquasso.api.exceptions import NotImplementedCalculation

    try:
        return "ok", fn()
    except NotImplementedCalculation as e:
        return "not-offered", e
    except Exception as e:  # noqa: BLE001 - any other exception of the interface is the finding
        return "raised", e


def record(st, active, basis):
    """Calls every interface; nothing is judged here."""
    rec = {}
    # single-outcome interface, every occupation of the basis
    vals = {}
    status = ("ok", None)
    for occ in basis:
        s, v = _call(lambda: st.get_particle_detection_probability(np.array(occ, dtype=int)))
        if s != "ok":
            status = (s, v)
            break
        vals[occ] = complex(v)
    rec["single"] = (status[0], vals if status[0] == "ok" else status[1])
    s, v = _call(lambda: st.fock_probabilities)
    rec["table"] = (s, np.asarray(v) if s == "ok" else v)
    s, v = _call(lambda: st.fock_probabilities_map)
    rec["table_map"] = (s, {_key(k): complex(x) for k, x in v.items()} if s == "ok" else v)
    marg = {}
    subsets = [c for r in range(1, len(active) + 1) for c in itertools.combinations(active, r)]
    for sub in subsets:
        s, v = _call(lambda: st.get_marginal_fock_probabilities(tuple(int(m) for m in sub)))
        marg[sub] = (s, {_key(k): complex(x) for k, x in v.items()} if s == "ok" else v)
    if len(active) >= 2:
        rev = tuple(reversed(active[:3]))
        s, v = _call(lambda: st.get_marginal_fock_probabilities(tuple(int(m) for m in rev)))
        marg[rev] = (s, {_key(k): complex(x) for k, x in v.items()} if s == "ok" else v)
    rec["marginals"] = marg
    s, v = _call(lambda: st.state_vector)
    rec["sv"] = (s, np.asarray(v, dtype=complex) if s == "ok" else v)
    s, v = _call(lambda: st.state_vector_map)
    rec["sv_map"] = (s, {_key(k): complex(x) for k, x in v.items()} if s == "ok" else v)
    s, v = _call(lambda: st.norm)
    rec["norm"] = (s, complex(v) if s == "ok" else v)
    return rec


# --------------------------------------------------------------------------- judging
def features(case, T, post, lossy):
    prep = case["prep"]
    sv = np.linalg.svd(T, compute_uv=False)
    if not lossy:
        loss = "lossless"
    elif np.allclose(sv, sv[0], rtol=1e-9, atol=1e-12):
        loss = "uniform-loss" if sv[0] < 1 - 1e-12 else "unit-loss"
    else:
        loss = "nonuniform-loss"
    if prep["kind"] == "dist":
        ov = "gram" if "gram" in prep else ("overlap1" if prep["overlap"] == 1.0 else "scalar-overlap")
        terms = 1
        occ = prep["occ"]
    else:
        ov = "indist"
        terms = len(prep["occs"]) if prep["kind"] == "superposition" else 1
        occ = prep["occ"] if prep["kind"] == "number" else None
    bunched = bool(occ is not None and max(occ + [0]) >= 2)
    cplx = bool(np.abs(T.imag).max() > 1e-9)
    return {"loss": loss, "overlap": ov, "multi": terms > 1, "post": len(post), "bunched": bunched, "complex": cplx,
            "key": "%s|%s|%s|%s" % (loss, ov, "multiterm" if terms > 1 else "single-term", "post%d" % len(post))}


def evaluate(ctx, pq, case):
    from vf.gen import programs as G
    from vf.monitors import stephook
    from vf.refs import passive_dilation as R

    ctx.evals += 1
    d = case["d"]
    T, post, lossy = transmission(case)
    feat = features(case, T, post, lossy)
    fkey = feat["key"]
    active = [m for m in range(d) if m not in post]
    n_post = sum(post.values())
    cutoff_act = case["cutoff"] - n_post
    basis = _basis(len(active), cutoff_act)

    # ---- run the program under the step hook
    hook = stephook.get().install()
    cap = hook.subscribe(Capture())
    try:
        try:
            sim, prog = G.build(pq, program_doc(case))
            res = sim.execute(prog)
            st = cap.state if cap.state is not None else res.state
        except Exception as e:  # noqa: BLE001
            from piquasso.api.exceptions import NotImplementedCalculation

            if isinstance(e, NotImplementedCalculation):
                ctx.bump("not_offered", "execute|" + fkey)
                return
            ctx.c["interface_raises"] += 1
            ctx.viol("execute-raises:%s:%s" % (type(e).__name__, _frame(e)),
                     "PassiveSimulator.execute raised %s on a supported program: %s" % (type(e).__name__, str(e)[:200]), case)
            return
    finally:
        hook.unsubscribe(cap)
    ctx.c["hook_steps"] += cap.steps

    # ---- the state the recorder sees must be the one the circuit describes
    Tlib = np.asarray(st.interferometer)
    if Tlib.shape != T.shape or float(np.abs(Tlib - T).max()) > 1e-12 * max(1, len(case["gates"])) * 8:
        dev = float("nan") if Tlib.shape != T.shape else float(np.abs(Tlib - T).max())
        ctx.viol("transmission-matrix-differs:%s" % ("with-loss-instructions" if lossy else "lossless"),
                 "state.interferometer differs from the product of the embedded instruction matrices by %.3e; gates %s" % (
                     dev, [[g["t"], g["m"]] for g in case["gates"]]), case)
    if int(st.d) != len(active) or int(st._config.cutoff) != cutoff_act or bool(st.is_lossy) != bool(lossy):
        ctx.viol("state-shape:d-cutoff-lossy-flag", "state has d=%s cutoff=%s is_lossy=%s, expected d=%d cutoff=%d is_lossy=%s" % (
            st.d, st._config.cutoff, st.is_lossy, len(active), cutoff_act, lossy), case)
        return

    rec = record(st, active, basis)
    ctx.c["states_recorded"] += 1
    ctx.bump("by_feature", fkey)

    # ---- reference
    ref_full, info = reference(pq, case, T, lossy)
    ref_act, success = R.postselect(ref_full, d, post)
    if n_post or post:
        if success < 1e-14:
            ctx.c["zero_probability_postselections"] += 1
    prep = case["prep"]
    # closed forms at the ends of the overlap range (checks the reference itself, then the library through it)
    if prep["kind"] == "dist":
        Gm = gram_of(case)
        n = int(sum(prep["occ"]))
        closed = None
        if np.abs(Gm - np.eye(n)).max() < 1e-14:
            closed = R.classical_distribution(T, prep["occ"])
        elif not lossy and np.linalg.matrix_rank(Gm, tol=1e-12) == 1:
            # rank one: all internal states equal up to phases = indistinguishable bosons
            closed = R.ideal_distribution(T, prep["occ"])
        if closed is not None:
            dev = max(abs(closed.get(k, 0.0) - ref_full.get(k, 0.0)) for k in set(closed) | set(ref_full))
            if dev > 1e-11:
                raise HarnessError("internal-mode reference differs from the closed form by %.3e" % dev)
            ctx.c["closed_form_checks"] += 1
    elif prep["kind"] == "number" and not lossy:
        closed = R.ideal_distribution(T, prep["occ"])
        dev = max(abs(closed.get(k, 0.0) - ref_full.get(k, 0.0)) for k in set(closed) | set(ref_full))
        if dev > 1e-11:
            raise HarnessError("dilation reference differs from the permanent formula by %.3e" % dev)
        ctx.c["closed_form_checks"] += 1

    lazy = {}
    partially_dist = prep["kind"] == "dist" and feat["overlap"] != "overlap1"
    # fock_probabilities takes the general (Ryser) path for lossy or partially distinguishable states; with
    # post-selections that path enumerates a basis reduced twice (finding KEY_POST_TABLE)
    general_table_path = bool(lossy or partially_dist)
    twice_reduced = len(_basis(len(active) - len(post), cutoff_act - n_post)) if len(active) >= len(post) else 0
    table_twice_reduced = [False]
    # state_vector of a post-selected superposition drops the terms with fewer photons than were post-selected
    # from a *copy* of the term list and then indexes the original lists (finding KEY_POST_SUPER): wrong whenever a
    # dropped term precedes a kept one
    sums = [int(sum(o)) for o, _ in input_terms(case)]
    misaligned_terms = bool(not lossy and prep["kind"] == "superposition" and post
                            and any(sums[i] < n_post and any(sj >= n_post for sj in sums[i + 1:]) for i in range(len(sums))))

    def wrong_kernel_active():
        if "wk" not in lazy:
            Gm_ = gram_of(case) if prep["kind"] == "dist" else np.ones((int(sum(prep["occ"])),) * 2, dtype=complex)
            lazy["wk"] = R.postselect(wrong_kernel_formula(T, prep["occ"], Gm_), d, post)[0]
        return lazy["wk"]

    def conj_reference_active():
        if "cj" not in lazy:
            lazy["cj"] = R.postselect(reference(pq, case, T, lossy, conj_amps=True)[0], d, post)[0]
        return lazy["cj"]

    def close(a, b, keys):
        return all(abs(a.get(k, 0.0) - b.get(k, 0.0)) <= TOL for k in keys)

    single_ok = rec["single"][0] == "ok"
    single = {k: v.real for k, v in rec["single"][1].items()} if single_ok else None
    table_ok = rec["table_map"][0] == "ok"
    table = {k: v.real for k, v in rec["table_map"][1].items()} if table_ok else None
    single_right = bool(single_ok and close(single, ref_act, basis))

    def classify(default, involved):
        """Known-finding symptom predicates (narrow); `involved` names the interfaces of the failed comparison."""
        observed = None
        if involved <= {"single", "table"}:
            observed = table if ("table" in involved and table_ok) else (single if single_ok else None)
        one_term_indist = prep["kind"] == "number" or feat["overlap"] == "overlap1"
        if misaligned_terms and involved & {"sv", "table", "norm"} and single_right:
            ctx.c["known_symptom_matches"] += 1
            return KEY_POST_SUPER
        if (lossy and feat["complex"] and one_term_indist and "table" in involved and single_right and table_ok
                and close(table, wrong_kernel_active(), basis)):
            ctx.c["known_symptom_matches"] += 1
            return KNOWN_TABLE
        if (lossy and feat["multi"] and involved == {"single"} and single_ok and close(single, conj_reference_active(), basis)):
            ctx.c["known_symptom_matches"] += 1
            return KNOWN_SUPER
        if (feat["complex"] and partially_dist and involved <= {"single", "table"} and observed is not None
                and close(observed, wrong_kernel_active(), basis)):
            ctx.c["known_symptom_matches"] += 1
            return KEY_DIST_KERNEL
        return default

    def compare(counter, name, got, want, keys, involved, what):
        """got / want: dicts; compares on `keys`; returns True when equal within TOL."""
        if not keys:
            return True
        ctx.c[counter] += 1
        ctx.c["values_compared"] += len(keys)
        devs = [(abs(got.get(k, 0.0) - want.get(k, 0.0)), k) for k in keys]
        dev, at = max(devs, key=lambda x: x[0])
        if dev <= TOL:
            ctx.c["max_dev_over_tol"] = max(ctx.c["max_dev_over_tol"], dev / TOL)
            return True
        mech = classify("%s:%s" % (name, fkey), involved)
        ctx.viol(mech, "%s: max |diff| = %.3e at %s (%.12g vs %.12g); T complex=%s, gates %s, input %s" % (
            what, dev, at, got.get(at, 0.0), want.get(at, 0.0), feat["complex"], [[g["t"], g["m"]] for g in case["gates"]],
            {k: v for k, v in prep.items() if k != "gram"}), case)
        return False

    def raised(iface, exc):
        ctx.c["interface_raises"] += 1
        mech = "raises:%s:%s:%s" % (iface, type(exc).__name__, _frame(exc))
        if (general_table_path and post and iface in ("fock_probabilities", "fock_probabilities_map", "norm")
                and "fock_probabilities" in _frames(exc)):
            ctx.c["known_symptom_matches"] += 1
            mech = KEY_POST_TABLE
        if (misaligned_terms and iface in ("fock_probabilities", "fock_probabilities_map", "norm", "state_vector")
                and "state_vector" in _frames(exc) and single_right):
            ctx.c["known_symptom_matches"] += 1
            mech = KEY_POST_SUPER
        ctx.viol(mech, "%s raised %s at %s: %s [%s]" % (iface, type(exc).__name__, _frame(exc), str(exc)[:160], fkey), case)

    def imag_and_sign(name, values):
        """values: iterable of complex."""
        values = list(values)
        if not values:
            return
        ctx.c["cmp_imaginary"] += 1
        ctx.c["cmp_nonnegativity"] += 1
        im = max(abs(v.imag) for v in values)
        ctx.c["max_imag_over_tol"] = max(ctx.c["max_imag_over_tol"], im / IMAG_TOL)
        if im > IMAG_TOL:
            ctx.viol("imaginary-part:%s:%s" % (name, fkey), "%s reports a probability with imaginary part %.3e" % (name, im), case)
        lo = min(v.real for v in values)
        if lo < -NEG_TOL:
            ctx.viol(classify("negative-probability:%s:%s" % (name, fkey), {"table"} if name.startswith("fock") else {name}),
                     "%s reports a negative probability %.3e" % (name, lo), case)

    compared_any = False
    # ---- single-outcome interface
    st_, v_ = rec["single"]
    if st_ == "not-offered":
        ctx.bump("not_offered", "single|" + fkey)
    elif st_ == "raised":
        raised("get_particle_detection_probability", v_)
    else:
        ctx.bump("offered", "single|" + fkey)
        imag_and_sign("single", v_.values())
        compare("cmp_single_vs_ref", "single-vs-reference", single, ref_act, basis, {"single"},
                "get_particle_detection_probability differs from the dilation reference")
        compared_any = True

    # ---- table
    st_, v_ = rec["table_map"]
    sa, va = rec["table"]
    if st_ == "not-offered" or sa == "not-offered":
        ctx.bump("not_offered", "table|" + fkey)
        if st_ != sa:
            ctx.viol("table-array-and-map-differ-in-availability", "fock_probabilities: %s, fock_probabilities_map: %s" % (sa, st_), case)
    elif st_ == "raised" or sa == "raised":
        raised("fock_probabilities" if sa == "raised" else "fock_probabilities_map", va if sa == "raised" else v_)
    else:
        ctx.bump("offered", "table|" + fkey)
        arr = np.asarray(va)
        if general_table_path and post and arr.shape == (twice_reduced,) and twice_reduced != len(basis):
            table_twice_reduced[0] = True
            ctx.c["known_symptom_matches"] += 1
            ctx.viol(KEY_POST_TABLE, "fock_probabilities of the post-selected state has %d entries (the basis reduced twice by the post-selection), "
                     "the basis of d=%d cutoff=%d has %d [%s]" % (arr.size, len(active), cutoff_act, len(basis), fkey), case)
        elif arr.shape != (len(basis),) or set(v_.keys()) != set(basis):
            ctx.viol("table-shape:%s" % fkey, "fock_probabilities has shape %s / %d map keys, the basis of d=%d cutoff=%d has %d elements" % (
                arr.shape, len(v_), len(active), cutoff_act, len(basis)), case)
        else:
            if float(np.max(np.abs(np.asarray(list(v_.values())) - arr))) > 0:
                ctx.viol("table-array-vs-map", "fock_probabilities and fock_probabilities_map values differ", case)
            imag_and_sign("fock_probabilities", v_.values())
            compare("cmp_table_vs_ref", "table-vs-reference", table, ref_act, basis, {"table"},
                    "fock_probabilities differs from the dilation reference")
            compared_any = True
            if single_ok:
                compare("cmp_table_vs_single", "table-vs-single", table, single, basis, {"table", "single"},
                        "fock_probabilities differs from get_particle_detection_probability")
            tot = float(sum(table.values()))
            ctx.c["cmp_sum_rule"] += 1
            if not post and abs(tot - 1.0) > TOL:
                ctx.viol(classify("table-sum-not-one:%s" % fkey, {"table"}), "fock_probabilities sums to %.12g" % tot, case)
            elif post and abs(tot - success) > TOL:
                ctx.viol(classify("table-sum-not-success-probability:%s" % fkey, {"table"}),
                         "fock_probabilities of the post-selected state sums to %.12g, success probability %.12g" % (tot, success), case)

    # ---- marginals
    n_marg = 0
    for sub, (s_, v_) in rec["marginals"].items():
        if s_ == "not-offered":
            ctx.bump("not_offered", "marginal|" + fkey)
            continue
        if s_ == "raised":
            raised("get_marginal_fock_probabilities", v_)
            continue
        n_marg += 1
        ctx.bump("offered", "marginal|" + fkey)
        got = {k: x.real for k, x in v_.items()}
        pos = [active.index(m) for m in sub]
        want = R.marginal(ref_act, pos)
        keys = sorted(set(got) | set(want))
        if any(len(k) != len(sub) for k in got):
            ctx.viol("marginal-key-length:%s" % fkey, "marginal on modes %s has keys of another length" % (sub,), case)
            continue
        imag_and_sign("marginal", v_.values())
        compare("cmp_marginal_vs_ref", "marginal-vs-reference", got, want, keys, {"marginal"},
                "get_marginal_fock_probabilities%s differs from the marginal of the dilation reference" % (sub,))
        compared_any = True
        if table_ok and set(table.keys()) == set(basis):
            compare("cmp_marginal_vs_table", "marginal-vs-table", got, R.marginal(table, pos), keys, {"marginal", "table"},
                    "get_marginal_fock_probabilities%s differs from the sums of fock_probabilities" % (sub,))
        tot = float(sum(got.values()))
        ctx.c["cmp_sum_rule"] += 1
        if abs(tot - success) > TOL:
            ctx.viol("marginal-sum:%s" % fkey, "marginal on %s sums to %.12g, expected %.12g" % (sub, tot, success), case)

    # ---- state vector
    s_, v_ = rec["sv_map"]
    sa, va = rec["sv"]
    if s_ == "not-offered" or sa == "not-offered":
        ctx.bump("not_offered", "state_vector|" + fkey)
    elif s_ == "raised" or sa == "raised":
        raised("state_vector", va if sa == "raised" else v_)
    else:
        ctx.bump("offered", "state_vector|" + fkey)
        if np.asarray(va).shape != (len(basis),) or set(v_.keys()) != set(basis):
            ctx.viol("state-vector-shape:%s" % fkey, "state_vector has shape %s, the basis has %d elements" % (np.asarray(va).shape, len(basis)), case)
        else:
            sq = {k: abs(x) ** 2 for k, x in v_.items()}
            if table_ok and set(table.keys()) == set(basis):
                compare("cmp_statevector_vs_table", "statevector-vs-table", sq, table, basis, {"sv", "table"},
                        "|state_vector|^2 differs from fock_probabilities")
            if single_ok:
                compare("cmp_statevector_vs_table", "statevector-vs-single", sq, single, basis, {"sv", "single"},
                        "|state_vector|^2 differs from get_particle_detection_probability")
            if not lossy and prep["kind"] != "dist":
                amp = reference_amplitudes(pq, case, T, post)
                devs = [(abs(v_.get(k, 0.0) - amp.get(k, 0.0)), k) for k in basis]
                dev, at = max(devs, key=lambda x: x[0]) if devs else (0.0, None)
                ctx.c["cmp_statevector_vs_ref"] += 1
                ctx.c["values_compared"] += len(devs)
                if dev > TOL:
                    ctx.viol(classify("statevector-vs-reference:%s" % fkey, {"sv"}),
                             "state_vector differs from the pure Fock amplitudes (phase included): %.3e at %s (%s vs %s)" % (
                                 dev, at, v_.get(at), amp.get(at)), case)
                else:
                    ctx.c["max_dev_over_tol"] = max(ctx.c["max_dev_over_tol"], dev / TOL)
                compared_any = True

    # ---- norm
    s_, v_ = rec["norm"]
    if s_ == "not-offered":
        ctx.bump("not_offered", "norm|" + fkey)
    elif s_ == "raised":
        raised("norm", v_)
    else:
        ctx.bump("offered", "norm|" + fkey)
        ctx.c["cmp_norm"] += 1
        want = success if post else 1.0
        if post and table_twice_reduced[0] and abs(v_ - complex(np.sum(rec["table"][1]))) <= TOL:
            pass  # the norm of a post-selected state is the sum of its table: same finding, reported above
        elif abs(v_.imag) > IMAG_TOL or abs(v_.real - want) > TOL:
            ctx.viol(classify("norm:%s" % fkey, {"table"} if post else {"norm"}),
                     "norm is %s, expected %.12g (%s)" % (v_, want, "post-selection success probability" if post else "normalised input"), case)
        if post and table_ok and not table_twice_reduced[0] and abs(v_.real - float(sum(table.values()))) > TOL:
            ctx.viol("norm-vs-table-sum:%s" % fkey, "norm %s differs from the sum of fock_probabilities %.12g" % (v_, sum(table.values())), case)

    if compared_any:
        occ = prep.get("occ")
        ctx.classes.add("%s|%s|%s|%s|%s|%s|d%d|n%d|%s" % (
            fkey, case["family"], "bunched" if feat["bunched"] else "spread", case["recipe"], "complex" if feat["complex"] else "real",
            "/".join(case.get("post_placement", [])) or "-", d, max(sum(o) for o, _ in input_terms(case)), prep.get("gram_kind", "-")))
        if len(ctx.samples) < 5:
            ctx.samples.append({"feature": fkey, "d": d, "cutoff": case["cutoff"], "input": {k: v for k, v in prep.items() if k != "gram"},
                                "gates": [[g["t"], g["m"]] for g in case["gates"]], "post": {str(k): v for k, v in post.items()},
                                "reference": {"modes": info.get("modes"), "dim": info.get("dim"), "internal_rank": info.get("k")},
                                "success_probability": success,
                                "offered": {k: (v[0] if k != "marginals" else sorted({x[0] for x in v.values()})) for k, v in rec.items()}})


def reference_amplitudes(pq, case, T, post):
    """Amplitudes of the lossless indistinguishable output on the remaining modes (pure Fock
    simulator, projected on the post-selected counts)."""
    from piquasso._math.fock import get_fock_space_basis

    d = case["d"]
    terms = input_terms(case)
    nmax = max(sum(o) for o, _ in terms)
    ins = [pq.FockStateVector({tuple(int(x) for x in o): complex(a) for o, a in terms}), pq.Interferometer(np.asarray(T, dtype=complex))]
    state = pq.PureFockSimulator(d=d, config=pq.Config(cutoff=nmax + 1)).execute(pq.Program(instructions=ins)).state
    vec = np.asarray(state.state_vector, dtype=complex)
    basis = np.asarray(get_fock_space_basis(d, nmax + 1), dtype=int)
    rest = [m for m in range(d) if m not in post]
    out = {}
    for row, a in zip(basis, vec):
        if all(row[m] == c for m, c in post.items()):
            out[tuple(int(row[m]) for m in rest)] = complex(a)
    return out


# --------------------------------------------------------------------------- plan / run
FAMILIES = ["number", "superposition", "dist-scalar", "dist-gram"]


def plan(tier, seed):
    env = {"OPENBLAS_NUM_THREADS": "1", "OMP_NUM_THREADS": "1", "NUMBA_NUM_THREADS": "2"}
    n = 8 if tier == "quick" else 16
    per = {"quick": {"number": 34, "superposition": 34, "dist-scalar": 22, "dist-gram": 22},
           "thorough": {"number": 300, "superposition": 300, "dist-scalar": 200, "dist-gram": 200}}[tier]
    return [{"name": "%s-%d" % (FAMILIES[i % 4], i), "family": FAMILIES[i % 4], "shard": i, "count": per[FAMILIES[i % 4]], "env": env}
            for i in range(n)]


def cutoff_observation(ctx, pq):
    """Outside the property (a truncated table is not a wrong table): DistinguishableNumberState keeps the
    default cutoff, NumberState raises it to n+1."""
    try:
        U = np.eye(2, dtype=complex)
        a = pq.PassiveSimulator(d=2).execute(pq.Program(instructions=[pq.DistinguishableNumberState([2, 2], particle_overlap=0.5), pq.Interferometer(U)])).state
        b = pq.PassiveSimulator(d=2).execute(pq.Program(instructions=[pq.NumberState([2, 2]), pq.Interferometer(U)])).state
        if a._config.cutoff != b._config.cutoff:
            ctx.obs.add("DistinguishableNumberState([2,2]) without an explicit cutoff keeps cutoff=%d (fock_probabilities sum %.3g); "
                        "NumberState([2,2]) infers cutoff=%d" % (a._config.cutoff, float(np.sum(a.fock_probabilities)), b._config.cutoff))
    except Exception as e:  # noqa: BLE001
        ctx.obs.add("cutoff probe raised %s" % type(e).__name__)


def warm_up(pq):
    """Five fixed tiny cases through the whole pipeline with a throw-away context, before the budget clock
    starts: the first call of every numba-compiled path (SLOS with post-selection, marginals, loop hafnian,
    pure Fock reference) costs seconds to minutes on a cold cache and must not eat the case budget."""
    from vf.gen import matrices as M

    w = np.exp(2j * np.pi / 3)
    F3 = np.array([[1, 1, 1], [1, w, w * w], [1, w * w, w]]) / np.sqrt(3)
    bs = {"t": "Beamsplitter", "m": [0, 1], "p": {"theta": 0.4, "phi": 0.3}}
    cases = [
        {"family": "number", "d": 3, "cutoff": 3, "prep": {"kind": "number", "occ": [1, 1, 0]}, "recipe": "none", "real": False,
         "gates": [{"t": "Interferometer", "m": [0, 1, 2], "p": {"matrix": M.enc(F3)}},
                   {"t": "PostSelectPhotons", "m": [2], "p": {"photon_counts": [1]}}]},
        {"family": "number", "d": 2, "cutoff": 4, "prep": {"kind": "number", "occ": [2, 1]}, "recipe": "uniform-all", "real": False,
         "gates": [bs, {"t": "UniformLoss", "m": None, "p": {"transmissivity": 0.8}}]},
        {"family": "superposition", "d": 2, "cutoff": 3, "recipe": "loss-single", "real": False,
         "prep": {"kind": "superposition", "occs": [[1, 1], [0, 1]], "amps": [[0.6, 0.0], [0.0, 0.8]]},
         "gates": [bs, {"t": "Loss", "m": [0], "p": {"transmissivity": 0.5}}]},
        {"family": "dist-scalar", "d": 2, "cutoff": 3, "prep": {"kind": "dist", "occ": [1, 1], "overlap": 0.5, "gram_kind": "scalar"},
         "recipe": "none", "real": False, "gates": [bs]},
        {"family": "dist-gram", "d": 2, "cutoff": 3, "recipe": "loss-single", "real": False,
         "prep": {"kind": "dist", "occ": [2, 0], "gram": M.enc(np.array([[1, 0.5j], [-0.5j, 1]])), "gram_kind": "complex-rank2"},
         "gates": [bs, {"t": "Loss", "m": [1], "p": {"transmissivity": 0.3}}]},
    ]
    scratch = Ctx()
    for c in cases:
        evaluate(scratch, pq, c)
    return scratch


def run_shard(spec):
    from vf import boot

    pq = boot.import_piquasso()
    rng = np.random.default_rng([int(spec["seed"]), 5, int(spec["shard"])])
    ctx = Ctx()
    tw = time.time()
    warm_up(pq)
    ctx.c["max_warm_up_seconds"] = round(time.time() - tw, 1)
    t0 = time.time()
    budget = 110 if spec["tier"] == "quick" else 165
    cutoff_observation(ctx, pq)
    for i in range(int(spec["count"])):
        if time.time() - t0 > budget:
            ctx.obs.add("shard stopped by time budget after %d cases" % i)
            break
        case = gen_case(rng, spec["family"], spec["tier"])
        evaluate(ctx, pq, case)
    return {"evaluations": ctx.evals, "classes": sorted(ctx.classes), "violations": ctx.violations,
            "counters": ctx.c, "samples": ctx.samples, "observations": sorted(ctx.obs)[:20]}


def replay(case):
    from vf import boot

    pq = boot.import_piquasso()
    ctx = Ctx()
    evaluate(ctx, pq, case)
    return ctx.violations
