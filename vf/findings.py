"""Known findings: committed in /verif/known_findings.json, never written at run time.

Entries are keyed by *mechanism*: the check that detects a violation classifies it with a
symptom predicate of its own (code path + symptom, never a case hash or random value) and
attaches that key as violation['mechanism']. An entry with status "known" turns such
violations into KNOWN-FINDING lines; an entry with status "fixed" suppresses nothing.
"""
import json
import os

PATH = os.path.join(os.path.dirname(os.path.dirname(os.path.abspath(__file__))), "known_findings.json")


def load():
    if not os.path.exists(PATH):
        return []
    with open(PATH) as fh:
        return json.load(fh)["findings"]


def match(entries, prop, violation):
    mech = violation.get("mechanism")
    if not mech:
        return None
    for e in entries:
        if e.get("status") == "known" and e["property"] == prop and e["key"] == mech:
            return e
    return None
