"""Exercise the numba-compiled paths once so that NUMBA_CACHE_DIR is populated."""
import sys


def main():
    from vf import boot

    pq = boot.import_piquasso()
    import numpy as np

    try:
        for dtype in (np.float64,):
            for cutoff in (1, 3, 5):
                with pq.Program() as p:
                    pq.Q(0, 1) | pq.StateVector([1, 0]) if cutoff > 1 else pq.Q() | pq.Vacuum()
                    pq.Q(0, 1) | pq.Beamsplitter(0.3, 0.2)
                    pq.Q(0) | pq.Squeezing(0.1)
                    pq.Q(1) | pq.Displacement(0.1)
                    pq.Q(0) | pq.Kerr(0.1)
                    pq.Q(0, 1) | pq.CrossKerr(0.1)
                for sim in (pq.PureFockSimulator, pq.FockSimulator):
                    try:
                        sim(d=2, config=pq.Config(cutoff=cutoff, dtype=dtype)).execute(p)
                    except Exception as e:
                        print("warmup:", sim.__name__, cutoff, type(e).__name__)
        with pq.Program() as p:
            pq.Q(0, 1, 2) | pq.StateVector([1, 1, 0])
            pq.Q(0, 1) | pq.Beamsplitter(0.3, 0.2)
            pq.Q(1, 2) | pq.Beamsplitter(0.5, 0.1)
            pq.Q() | pq.ParticleNumberMeasurement()
        pq.PassiveSimulator(d=3).execute(p, shots=5)
        with pq.Program() as p:
            pq.Q(0) | pq.Squeezing(0.2)
            pq.Q(0, 1) | pq.Beamsplitter(0.3, 0.2)
            pq.Q() | pq.ParticleNumberMeasurement()
        pq.GaussianSimulator(d=2).execute(p, shots=5)
    except Exception as e:  # warm-up is best effort
        print("warmup stopped:", type(e).__name__, e)
    return 0


if __name__ == "__main__":
    sys.exit(main())
