// Stand-alone driver for the permanent kernels (no Python): reads cases from a text
// file, runs them from `callers` concurrent caller threads, prints every value with
// 17 significant digits. Used with -fsanitize=thread (+ gomp_forkjoin.cpp) and for
// forced job counts via $VERIF_HWC (see hwc_shim.cpp).
//
// case file:  N \n  then N times:
//   kind(perm|laplace|grad|ffi) prec(d|f) nrows ncols
//   rows[nrows]   cols[ncols]   re im  * nrows*ncols (row major)
// or, for the batched XLA-FFI backward handler of src/jax_perm/jax_perm_core.cpp:
//   bwd d nrows ncols batch
//   batch times: rows[nrows] cols[ncols] (re im)*nrows*ncols  cot_re cot_im
// (output: batch*nrows*ncols cotangents; BATCH_MISMATCHES counts batch elements that differ
//  bitwise from cot * grad_perm of the same element evaluated on its own)
#include <complex>
#include <cstdio>
#include <cstdlib>
#include <cstring>
#include <string>
#include <vector>
#include <thread>
#include <fstream>
#include <iostream>
#include <sstream>

#include "matrix.hpp"
#include "permanent.hpp"
#include "permanent_laplace.hpp"

struct Case {
    std::string kind;
    char prec;
    int nrows, ncols;
    int batch = 0;
    std::vector<int> rows, cols;
    std::vector<std::complex<double>> a;
    std::vector<std::complex<double>> cot;
};

int verif_perm_bwd_batched(std::complex<double> *A, uint64_t *rows, uint64_t *cols,
                           std::complex<double> *cot, std::complex<double> *out,
                           int64_t batch, int64_t n, int64_t m);
int verif_perm_fwd(std::complex<double> *A, uint64_t *rows, uint64_t *cols, std::complex<double> *y, int64_t n, int64_t m);

static std::vector<std::complex<double>> run_bwd(const Case &c)
{
    // private copies: the handler receives plain pointers into caller-owned buffers
    std::vector<std::complex<double>> A(c.a), cot(c.cot);
    std::vector<uint64_t> rows(c.rows.begin(), c.rows.end()), cols(c.cols.begin(), c.cols.end());
    std::vector<std::complex<double>> out(A.size(), std::complex<double>(-7.0, 7.0));
    if (verif_perm_bwd_batched(A.data(), rows.data(), cols.data(), cot.data(), out.data(), c.batch, c.nrows, c.ncols) != 0)
        return {};
    if (std::memcmp(A.data(), c.a.data(), A.size() * sizeof(A[0])) != 0)
        out.push_back(std::complex<double>(1e300, 1e300));  // input modified: make the result differ
    return out;
}

static std::vector<std::complex<double>> run_ffi_fwd(const Case &c)
{
    std::vector<std::complex<double>> A(c.a);
    std::vector<uint64_t> rows(c.rows.begin(), c.rows.end()), cols(c.cols.begin(), c.cols.end());
    std::complex<double> y(-7.0, 7.0);
    if (verif_perm_fwd(A.data(), rows.data(), cols.data(), &y, c.nrows, c.ncols) != 0)
        return {};
    return {y};
}

template <typename T>
static std::vector<std::complex<double>> run_T(const Case &c)
{
    Matrix<std::complex<T>> A(c.nrows, c.ncols);
    for (size_t i = 0; i < c.a.size(); i++)
        A[i] = std::complex<T>(static_cast<T>(c.a[i].real()), static_cast<T>(c.a[i].imag()));
    Vector<int> rows(c.nrows), cols(c.ncols);
    for (int i = 0; i < c.nrows; i++) rows[i] = c.rows[i];
    for (int i = 0; i < c.ncols; i++) cols[i] = c.cols[i];
    std::vector<std::complex<double>> out;
    if (c.kind == "perm") {
        auto v = permanent_cpp<T>(A, rows, cols);
        out.emplace_back(v.real(), v.imag());
    } else if (c.kind == "laplace") {
        auto v = permanent_laplace_cpp<T>(A, rows, cols);
        for (size_t i = 0; i < v.size(); i++) out.emplace_back(v[i].real(), v[i].imag());
    }
    return out;
}

static std::vector<std::complex<double>> run(const Case &c)
{
    if (c.kind == "bwd")
        return run_bwd(c);
    if (c.kind == "ffi")
        return run_ffi_fwd(c);
    if (c.kind == "grad") {
        Matrix<std::complex<double>> A(c.nrows, c.ncols);
        for (size_t i = 0; i < c.a.size(); i++) A[i] = c.a[i];
        Vector<int> rows(c.nrows), cols(c.ncols);
        for (int i = 0; i < c.nrows; i++) rows[i] = c.rows[i];
        for (int i = 0; i < c.ncols; i++) cols[i] = c.cols[i];
        auto g = grad_perm(A, rows, cols);
        std::vector<std::complex<double>> out;
        for (size_t i = 0; i < g.size(); i++) out.push_back(g[i]);
        return out;
    }
    try {
        return c.prec == 'f' ? run_T<float>(c) : run_T<double>(c);
    } catch (std::string &s) {
        return {};
    }
}

int main(int argc, char **argv)
{
    if (argc < 2) { std::fprintf(stderr, "usage: kernel_driver casefile [callers]\n"); return 2; }
    int callers = argc > 2 ? std::atoi(argv[2]) : 1;
    std::ifstream in(argv[1]);
    int n; in >> n;
    std::vector<Case> cases(n);
    for (auto &c : cases) {
        std::string p;
        in >> c.kind >> p >> c.nrows >> c.ncols;
        c.prec = p[0];
        if (c.kind == "bwd") {
            in >> c.batch;
            for (int b = 0; b < c.batch; b++) {
                for (int i = 0; i < c.nrows; i++) { int r; in >> r; c.rows.push_back(r); }
                for (int i = 0; i < c.ncols; i++) { int r; in >> r; c.cols.push_back(r); }
                for (int i = 0; i < c.nrows * c.ncols; i++) { double re, im; in >> re >> im; c.a.emplace_back(re, im); }
                double re, im; in >> re >> im; c.cot.emplace_back(re, im);
            }
            continue;
        }
        c.rows.resize(c.nrows); c.cols.resize(c.ncols);
        for (auto &r : c.rows) in >> r;
        for (auto &r : c.cols) in >> r;
        c.a.resize(static_cast<size_t>(c.nrows) * c.ncols);
        for (auto &z : c.a) { double re, im; in >> re >> im; z = {re, im}; }
    }
    if (!in) { std::fprintf(stderr, "bad case file\n"); return 2; }

    std::vector<std::vector<std::vector<std::complex<double>>>> results(callers);
    std::vector<std::thread> th;
    for (int t = 0; t < callers; t++) {
        th.emplace_back([&, t]() {
            results[t].resize(cases.size());
            // callers walk the cases in different rotations so that different kernels overlap
            for (size_t k = 0; k < cases.size(); k++) {
                size_t i = (k + static_cast<size_t>(t) * 7) % cases.size();
                results[t][i] = run(cases[i]);
            }
        });
    }
    for (auto &t : th) t.join();

    long mismatches = 0;
    for (int t = 1; t < callers; t++)
        for (size_t i = 0; i < cases.size(); i++)
            if (results[t][i].size() != results[0][i].size() ||
                std::memcmp(results[t][i].data(), results[0][i].data(),
                            results[0][i].size() * sizeof(std::complex<double>)) != 0)
                mismatches++;
    // batched backward: every batch element must equal cot * grad_perm of that element alone
    long batch_mismatches = 0, batch_elements = 0;
    for (size_t i = 0; i < cases.size(); i++) {
        const Case &c = cases[i];
        if (c.kind != "bwd") continue;
        size_t sz = static_cast<size_t>(c.nrows) * c.ncols;
        if (results[0][i].size() != sz * c.batch) { batch_mismatches += c.batch; batch_elements += c.batch; continue; }
        for (int b = 0; b < c.batch; b++) {
            Case one;
            one.kind = "grad"; one.prec = 'd'; one.nrows = c.nrows; one.ncols = c.ncols;
            one.rows.assign(c.rows.begin() + b * c.nrows, c.rows.begin() + (b + 1) * c.nrows);
            one.cols.assign(c.cols.begin() + b * c.ncols, c.cols.begin() + (b + 1) * c.ncols);
            one.a.assign(c.a.begin() + b * sz, c.a.begin() + (b + 1) * sz);
            auto g = run(one);
            batch_elements++;
            bool ok = g.size() == sz;
            for (size_t k = 0; ok && k < sz; k++) {
                std::complex<double> want = c.cot[b] * g[k], got = results[0][i][b * sz + k];
                if (std::memcmp(&want, &got, sizeof(want)) != 0) ok = false;
            }
            if (!ok) batch_mismatches++;
        }
    }
    std::printf("BATCH_ELEMENTS %ld\nBATCH_MISMATCHES %ld\n", batch_elements, batch_mismatches);
    for (size_t i = 0; i < cases.size(); i++) {
        std::printf("%zu", i);
        for (auto &z : results[0][i]) std::printf(" %.17g %.17g", z.real(), z.imag());
        std::printf("\n");
    }
    std::printf("CALLER_MISMATCHES %ld\n", mismatches);
    return 0;
}
