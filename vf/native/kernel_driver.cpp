// Stand-alone driver for the permanent kernels (no Python): reads cases from a text
// file, runs them from `callers` concurrent caller threads, prints every value with
// 17 significant digits. Used with -fsanitize=thread (+ gomp_forkjoin.cpp) and for
// forced job counts via $VERIF_HWC (see hwc_shim.cpp).
//
// case file:  N \n  then N times:
//   kind(perm|laplace|grad) prec(d|f) nrows ncols
//   rows[nrows]   cols[ncols]   re im  * nrows*ncols (row major)
#include <complex>
#include <cstdio>
#include <cstdlib>
#include <cstring>
#include <string>
#include <vector>
#include <thread>
#include <fstream>
#include <iostream>
#include <sstream>

#include "matrix.hpp"
#include "permanent.hpp"
#include "permanent_laplace.hpp"

struct Case {
    std::string kind;
    char prec;
    int nrows, ncols;
    std::vector<int> rows, cols;
    std::vector<std::complex<double>> a;
};

template <typename T>
static std::vector<std::complex<double>> run_T(const Case &c)
{
    Matrix<std::complex<T>> A(c.nrows, c.ncols);
    for (size_t i = 0; i < c.a.size(); i++)
        A[i] = std::complex<T>(static_cast<T>(c.a[i].real()), static_cast<T>(c.a[i].imag()));
    Vector<int> rows(c.nrows), cols(c.ncols);
    for (int i = 0; i < c.nrows; i++) rows[i] = c.rows[i];
    for (int i = 0; i < c.ncols; i++) cols[i] = c.cols[i];
    std::vector<std::complex<double>> out;
    if (c.kind == "perm") {
        auto v = permanent_cpp<T>(A, rows, cols);
        out.emplace_back(v.real(), v.imag());
    } else if (c.kind == "laplace") {
        auto v = permanent_laplace_cpp<T>(A, rows, cols);
        for (size_t i = 0; i < v.size(); i++) out.emplace_back(v[i].real(), v[i].imag());
    }
    return out;
}

static std::vector<std::complex<double>> run(const Case &c)
{
    if (c.kind == "grad") {
        Matrix<std::complex<double>> A(c.nrows, c.ncols);
        for (size_t i = 0; i < c.a.size(); i++) A[i] = c.a[i];
        Vector<int> rows(c.nrows), cols(c.ncols);
        for (int i = 0; i < c.nrows; i++) rows[i] = c.rows[i];
        for (int i = 0; i < c.ncols; i++) cols[i] = c.cols[i];
        auto g = grad_perm(A, rows, cols);
        std::vector<std::complex<double>> out;
        for (size_t i = 0; i < g.size(); i++) out.push_back(g[i]);
        return out;
    }
    try {
        return c.prec == 'f' ? run_T<float>(c) : run_T<double>(c);
    } catch (std::string &s) {
        return {};
    }
}

int main(int argc, char **argv)
{
    if (argc < 2) { std::fprintf(stderr, "usage: kernel_driver casefile [callers]\n"); return 2; }
    int callers = argc > 2 ? std::atoi(argv[2]) : 1;
    std::ifstream in(argv[1]);
    int n; in >> n;
    std::vector<Case> cases(n);
    for (auto &c : cases) {
        std::string p;
        in >> c.kind >> p >> c.nrows >> c.ncols;
        c.prec = p[0];
        c.rows.resize(c.nrows); c.cols.resize(c.ncols);
        for (auto &r : c.rows) in >> r;
        for (auto &r : c.cols) in >> r;
        c.a.resize(static_cast<size_t>(c.nrows) * c.ncols);
        for (auto &z : c.a) { double re, im; in >> re >> im; z = {re, im}; }
    }
    if (!in) { std::fprintf(stderr, "bad case file\n"); return 2; }

    std::vector<std::vector<std::vector<std::complex<double>>>> results(callers);
    std::vector<std::thread> th;
    for (int t = 0; t < callers; t++) {
        th.emplace_back([&, t]() {
            results[t].resize(cases.size());
            // callers walk the cases in different rotations so that different kernels overlap
            for (size_t k = 0; k < cases.size(); k++) {
                size_t i = (k + static_cast<size_t>(t) * 7) % cases.size();
                results[t][i] = run(cases[i]);
            }
        });
    }
    for (auto &t : th) t.join();

    long mismatches = 0;
    for (int t = 1; t < callers; t++)
        for (size_t i = 0; i < cases.size(); i++)
            if (results[t][i].size() != results[0][i].size() ||
                std::memcmp(results[t][i].data(), results[0][i].data(),
                            results[0][i].size() * sizeof(std::complex<double>)) != 0)
                mismatches++;
    for (size_t i = 0; i < cases.size(); i++) {
        std::printf("%zu", i);
        for (auto &z : results[0][i]) std::printf(" %.17g %.17g", z.real(), z.imag());
        std::printf("\n");
    }
    std::printf("CALLER_MISMATCHES %ld\n", mismatches);
    return 0;
}
