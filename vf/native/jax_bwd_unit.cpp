// Verification-only translation unit: compiles the repository's src/jax_perm/jax_perm_core.cpp
// *unchanged* into the stand-alone kernel driver so that the batched backward loop
// (`#pragma omp parallel for` over the batch in PermBwdImpl) and the forward handlers run
// under ThreadSanitizer. The pybind11 module definition at the end of that file is turned into
// a function template that is never instantiated (no Python symbols are needed at link time);
// XLA FFI buffers are plain C structs (xla/ffi/api/c_api.h) filled in by hand.
#define PYBIND11_MODULE(name, var) \
    template <typename VerifNeverInstantiated> static void verif_unused_module_##name(pybind11::module_ &var)
#include "jax_perm/jax_perm_core.cpp"
#undef PYBIND11_MODULE

#include <cstring>

namespace {
struct Buf {
    XLA_FFI_Buffer b;
    std::vector<int64_t> dims;
    Buf(XLA_FFI_DataType dt, void *data, std::vector<int64_t> d) : dims(std::move(d))
    {
        std::memset(&b, 0, sizeof(b));
        b.struct_size = XLA_FFI_Buffer_STRUCT_SIZE;
        b.extension_start = nullptr;
        b.dtype = dt;
        b.data = data;
        b.rank = static_cast<int64_t>(dims.size());
        b.dims = dims.data();
    }
};
}  // namespace

// A: batch x n x m (row major), rows: batch x n, cols: batch x m, cot: batch; out: batch x n x m.
// Returns 0 on success, 1 if the handler reported an error.
int verif_perm_bwd_batched(std::complex<double> *A, uint64_t *rows, uint64_t *cols,
                           std::complex<double> *cot, std::complex<double> *out,
                           int64_t batch, int64_t n, int64_t m)
{
    std::vector<std::complex<double>> res(static_cast<size_t>(batch) + 1);
    Buf bres(XLA_FFI_DataType_C128, res.data(), {batch});
    Buf bA(XLA_FFI_DataType_C128, A, {batch, n, m});
    Buf brows(XLA_FFI_DataType_U64, rows, {batch, n});
    Buf bcols(XLA_FFI_DataType_U64, cols, {batch, m});
    Buf bcot(XLA_FFI_DataType_C128, cot, {batch});
    Buf bout(XLA_FFI_DataType_C128, out, {batch, n, m});
    ffi::Error e = PermBwdImpl(ffi::Buffer<ffi::DataType::C128>(&bres.b), ffi::Buffer<ffi::DataType::C128>(&bA.b),
                               ffi::Buffer<ffi::DataType::U64>(&brows.b), ffi::Buffer<ffi::DataType::U64>(&bcols.b),
                               ffi::Buffer<ffi::DataType::C128>(&bcot.b),
                               ffi::ResultBuffer<ffi::DataType::C128>(ffi::Buffer<ffi::DataType::C128>(&bout.b)));
    return e.success() ? 0 : 1;
}

// single (unbatched) forward value through PermanentImpl: A n x m, rows n, cols m
int verif_perm_fwd(std::complex<double> *A, uint64_t *rows, uint64_t *cols, std::complex<double> *y, int64_t n, int64_t m)
{
    Buf bA(XLA_FFI_DataType_C128, A, {n, m});
    Buf brows(XLA_FFI_DataType_U64, rows, {n});
    Buf bcols(XLA_FFI_DataType_U64, cols, {m});
    Buf by(XLA_FFI_DataType_C128, y, {});
    ffi::Error e = PermanentImpl(ffi::Buffer<ffi::DataType::C128>(&bA.b), ffi::Buffer<ffi::DataType::U64>(&brows.b),
                                 ffi::Buffer<ffi::DataType::U64>(&bcols.b),
                                 ffi::ResultBuffer<ffi::DataType::C128>(ffi::Buffer<ffi::DataType::C128>(&by.b)));
    return e.success() ? 0 : 1;
}
