// Verification-only definition of std::thread::hardware_concurrency().
// Linked into the rebuilt extension modules / the kernel driver with -Wl,-Bsymbolic so
// that the kernels' query resolves here. Returns $VERIF_HWC when set (any value the
// standard allows, including 0), the real processor count otherwise.
#include <thread>
#include <cstdlib>
#include <unistd.h>

unsigned int std::thread::hardware_concurrency() noexcept
{
    const char *e = std::getenv("VERIF_HWC");
    if (e && *e)
        return static_cast<unsigned int>(std::strtoul(e, nullptr, 10));
    long n = sysconf(_SC_NPROCESSORS_ONLN);
    return n > 0 ? static_cast<unsigned int>(n) : 0u;
}
