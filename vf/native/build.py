"""Rebuild piquasso's native extension modules from the working tree, offline.

Flavours
  plain : -O2, what every Python-level check loads instead of the pre-built .so
  asan  : -O1 -g -fsanitize=address,undefined -fsanitize-recover=all
          (loaded into the real interpreter under LD_PRELOAD=libasan:libubsan)
  tsan  : stand-alone kernel driver (no Python), -fsanitize=thread, linked against
          gomp_forkjoin.cpp instead of libgomp

Every flavour links hwc_shim.cpp, a verification-only definition of
std::thread::hardware_concurrency() that obeys $VERIF_HWC.

Outputs are cached under /verif/.build/native/<flavour>-<sha256 of sources+flags>/.
"""

import hashlib
import os
import subprocess
import sys
import sysconfig
import concurrent.futures as cf

HERE = os.path.dirname(os.path.abspath(__file__))
VERIF = os.path.dirname(os.path.dirname(HERE))
BUILD_ROOT = os.path.join(VERIF, ".build", "native")

SITE = "/venv/lib/python3.12/site-packages"
PYINC = sysconfig.get_paths()["include"]
PB11 = os.path.join(SITE, "tensorflow/include/external/pybind11/include")
JAXINC = os.path.join(SITE, "jaxlib/include")
EXT = sysconfig.get_config_var("EXT_SUFFIX") or ".cpython-312-x86_64-linux-gnu.so"

MODULES = {
    # python module name -> (sources relative to the repo root, extra -isystem)
    "piquasso._math.permanent": (
        ["piquasso/_math/permanent.cpp", "src/permanent.cpp", "src/permanent_laplace.cpp"],
        [],
    ),
    "piquasso._math.torontonian": (
        [
            "piquasso/_math/torontonian.cpp",
            "src/torontonian.cpp",
            "src/loop_torontonian.cpp",
            "src/torontonian_common.cpp",
        ],
        [],
    ),
    "piquasso._math.pfaffian": (
        ["piquasso/_math/pfaffian.cpp", "src/pfaffian.cpp"],
        [],
    ),
    "piquasso.jax_extensions._jax_perm_core": (
        ["src/jax_perm/jax_perm_core.cpp", "src/permanent.cpp"],
        [JAXINC],
    ),
}

FLAGS = {
    "plain": ["-O2"],
    "asan": [
        "-O1",
        "-g",
        "-fno-omit-frame-pointer",
        "-fsanitize=address,undefined",
        "-fsanitize-recover=all",
    ],
}


class BuildError(RuntimeError):
    pass


def _headers(repo):
    out = []
    for root in ("src", "piquasso/_math", "src/jax_perm"):
        p = os.path.join(repo, root)
        if not os.path.isdir(p):
            continue
        for f in sorted(os.listdir(p)):
            if f.endswith((".hpp", ".h", ".cpp")):
                out.append(os.path.join(p, f))
    return out


def source_digest(repo, flavour):
    h = hashlib.sha256()
    h.update(flavour.encode())
    h.update(repr(FLAGS.get(flavour)).encode())
    for f in _headers(repo) + [
        os.path.join(HERE, "hwc_shim.cpp"),
        os.path.join(HERE, "gomp_forkjoin.cpp"),
        os.path.join(HERE, "kernel_driver.cpp"),
        os.path.join(HERE, "jax_bwd_unit.cpp"),
        os.path.abspath(__file__),
    ]:
        if os.path.exists(f):
            h.update(f.encode())
            with open(f, "rb") as fh:
                h.update(fh.read())
    return h.hexdigest()[:20]


def _run(cmd, log):
    r = subprocess.run(cmd, stdout=subprocess.PIPE, stderr=subprocess.STDOUT, text=True)
    with open(log, "a") as fh:
        fh.write(" ".join(cmd) + "\n" + r.stdout + "\n")
    if r.returncode != 0:
        raise BuildError("compile failed: %s\n%s" % (" ".join(cmd[:6]), r.stdout[-3000:]))


def module_filename(modname):
    return modname.split(".")[-1] + EXT


def build_modules(repo, flavour="plain"):
    """Returns {module name: path of the built .so}. Raises BuildError."""
    assert flavour in FLAGS
    out = os.path.join(BUILD_ROOT, "%s-%s" % (flavour, source_digest(repo, flavour)))
    done = os.path.join(out, "DONE")
    result = {m: os.path.join(out, module_filename(m)) for m in MODULES}
    if os.path.exists(done) and all(os.path.exists(p) for p in result.values()):
        return result
    os.makedirs(out, exist_ok=True)
    log = os.path.join(out, "build.log")

    def one(mod):
        srcs, extra = MODULES[mod]
        tmp = result[mod] + ".tmp.%d" % os.getpid()
        cmd = ["g++", "-std=c++17", "-fPIC", "-shared", "-fopenmp", "-w"]
        cmd += FLAGS[flavour]
        cmd += ["-isystem", PYINC, "-isystem", PB11]
        for e in extra:
            cmd += ["-isystem", e]
        cmd += ["-I", os.path.join(repo, "src"), "-I", os.path.join(repo, "src/jax_perm")]
        cmd += [os.path.join(repo, s) for s in srcs]
        cmd += [os.path.join(HERE, "hwc_shim.cpp"), "-Wl,-Bsymbolic"]
        cmd += ["-o", tmp]
        _run(cmd, log + "." + mod.split(".")[-1])
        os.replace(tmp, result[mod])

    with cf.ThreadPoolExecutor(4) as ex:
        list(ex.map(one, MODULES))
    open(done, "w").write("ok\n")
    _prune_old_builds(keep=out)
    return result


def _prune_old_builds(keep, max_dirs=24, min_age_s=6 * 3600):
    """Disk hygiene: the digest covers the source *paths*, so every scratch copy of the repository gets its own build
    directory. Directories beyond the newest `max_dirs` that have not been touched for `min_age_s` are removed (a check that
    is still running uses a directory younger than that)."""
    import shutil
    import time

    try:
        dirs = [os.path.join(BUILD_ROOT, n) for n in os.listdir(BUILD_ROOT)]
        dirs = sorted((d for d in dirs if os.path.isdir(d) and d != keep), key=os.path.getmtime, reverse=True)
        now = time.time()
        for d in dirs[max_dirs:]:
            if now - os.path.getmtime(d) > min_age_s:
                shutil.rmtree(d, ignore_errors=True)
    except OSError:
        pass


def build_driver(repo, flavour):
    """Stand-alone kernel driver. flavour in {'tsan', 'plain', 'asan'}."""
    out = os.path.join(BUILD_ROOT, "driver-%s-%s" % (flavour, source_digest(repo, "driver" + flavour)))
    exe = os.path.join(out, "kernel_driver")
    if os.path.exists(exe):
        return exe
    os.makedirs(out, exist_ok=True)
    log = os.path.join(out, "build.log")
    # -ffunction-sections/--gc-sections: jax_bwd_unit.cpp includes pybind11 headers whose (unused)
    # inline helpers reference the Python C API; their sections are discarded at link time
    cmd = ["g++", "-std=c++17", "-w", "-g", "-O1", "-fopenmp", "-pthread", "-ffunction-sections", "-fdata-sections", "-Wl,--gc-sections"]
    if flavour == "tsan":
        cmd += ["-fsanitize=thread", "-fno-omit-frame-pointer"]
    elif flavour == "asan":
        cmd += ["-fsanitize=address,undefined", "-fsanitize-recover=all", "-fno-omit-frame-pointer"]
    cmd += ["-I", os.path.join(repo, "src"), "-isystem", PYINC, "-isystem", PB11, "-isystem", JAXINC]
    cmd += [
        os.path.join(HERE, "kernel_driver.cpp"),
        os.path.join(HERE, "jax_bwd_unit.cpp"),
        os.path.join(repo, "src/permanent.cpp"),
        os.path.join(repo, "src/permanent_laplace.cpp"),
        os.path.join(HERE, "hwc_shim.cpp"),
    ]
    if flavour == "tsan":
        # our own fork-join runtime replaces libgomp so that TSan sees the
        # happens-before edges of the parallel region
        cmd += [os.path.join(HERE, "gomp_forkjoin.cpp"), "-nodefaultlibs", "-lstdc++", "-lm", "-ltsan", "-lpthread", "-lc", "-lgcc_s", "-lgcc"]
    tmp = exe + ".tmp.%d" % os.getpid()
    cmd += ["-o", tmp]
    _run(cmd, log)
    os.replace(tmp, exe)
    return exe


def sanitizer_preload():
    libs = []
    for name in ("libasan.so", "libubsan.so"):
        p = subprocess.run(["gcc", "-print-file-name=" + name], stdout=subprocess.PIPE, text=True).stdout.strip()
        libs.append(os.path.realpath(p))
    return ":".join(libs)


if __name__ == "__main__":
    repo = os.environ.get("VERIF_REPO", "/repo")
    for fl in sys.argv[1:] or ["plain"]:
        if fl in FLAGS:
            print(fl, build_modules(repo, fl))
        else:
            print(fl, build_driver(repo, fl[len("driver-"):]))
