// Minimal fork-join implementation of the three libgomp entry points used by
// src/permanent.cpp and src/permanent_laplace.cpp (`#pragma omp parallel for
// num_threads(K)` with the default static schedule):
//   GOMP_parallel, omp_get_num_threads, omp_get_thread_num
// libgomp itself is not instrumented, so ThreadSanitizer cannot see the happens-before
// edges of its barriers; with plain pthread create/join (which TSan intercepts) it sees
// exactly the ordering OpenMP guarantees for a parallel region: fork before the body,
// join after it, nothing in between.
#include <pthread.h>
#include <vector>
#include <cstdlib>

namespace {
thread_local int tl_tid = 0;
thread_local int tl_nthreads = 1;

struct Arg {
    void (*fn)(void *);
    void *data;
    int tid;
    int nthreads;
};

void *trampoline(void *p)
{
    Arg *a = static_cast<Arg *>(p);
    tl_tid = a->tid;
    tl_nthreads = a->nthreads;
    a->fn(a->data);
    return nullptr;
}
}  // namespace

extern "C" {

int omp_get_num_threads(void) { return tl_nthreads; }
int omp_get_thread_num(void) { return tl_tid; }
int omp_get_max_threads(void)
{
    const char *e = std::getenv("OMP_NUM_THREADS");
    return (e && *e) ? std::atoi(e) : 4;
}

void GOMP_parallel(void (*fn)(void *), void *data, unsigned num_threads, unsigned /*flags*/)
{
    if (num_threads == 0)
        num_threads = static_cast<unsigned>(omp_get_max_threads());
    std::vector<pthread_t> th(num_threads);
    std::vector<Arg> args(num_threads);
    int saved_tid = tl_tid, saved_n = tl_nthreads;
    for (unsigned i = 1; i < num_threads; i++) {
        args[i] = Arg{fn, data, static_cast<int>(i), static_cast<int>(num_threads)};
        if (pthread_create(&th[i], nullptr, trampoline, &args[i]) != 0)
            std::abort();
    }
    tl_tid = 0;
    tl_nthreads = static_cast<int>(num_threads);
    fn(data);
    tl_tid = saved_tid;
    tl_nthreads = saved_n;
    for (unsigned i = 1; i < num_threads; i++)
        pthread_join(th[i], nullptr);
}
}
