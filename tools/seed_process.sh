#!/bin/bash
# usage: tools/seed_process.sh <PROP> <dir with patch.diff demo.py> [extra env for demo]
# Confirms an independently written breaking change (demo fails with / passes without) and runs the
# property's quick check against a scratch copy with the patch applied. Prints one summary line.
P=$1; D=$2; shift 2
cd "$(dirname "$0")/.."
export PYTHONPATH=/verif
W=/tmp/seedchk/$P.$$; mkdir -p $W
rsync -a --exclude __pycache__ --exclude .git /repo/piquasso /repo/src $W/ 
( cd $W && git init -q . && git apply --include='piquasso/*' --include='src/*' $D/patch.diff ) || { echo "SEED $P patch-does-not-apply"; exit 3; }
rm -rf $W/.git
ND=""
if grep -q "^diff --git a/src/\|^diff --git a/piquasso/_math/.*cpp" $D/patch.diff; then
  /tmp/seed3/tools/rebuild_native.sh $W $W/native >/dev/null 2>&1; ND=$W/native
fi
( cd $D && env "$@" NUMBA_CACHE_DIR=$W/nb1 PYTHONPATH=/tmp/seed3/tools PQ_WT=$W PQ_NATIVE_DIR=$ND timeout 1500 /venv/bin/python demo.py > $W/demo_with.log 2>&1 ); RC1=$?
( cd $D && env "$@" NUMBA_CACHE_DIR=$W/nb0 PYTHONPATH=/tmp/seed3/tools PQ_WT=/repo timeout 1500 /venv/bin/python demo.py > $W/demo_without.log 2>&1 ); RC0=$?
/venv/bin/python -m vf.selftest --patch $D/patch.diff $P > $W/selftest.log 2>&1; RCS=$?
echo "SEED $P demo_with=$RC1 demo_without=$RC0 selftest_rc=$RCS :: $(grep -E 'caught|MISSED|rc=' $W/selftest.log | tail -2 | tr '\n' ' ' | cut -c1-300)"
cp $W/selftest.log $D/selftest.log; cp $W/demo_with.log $W/demo_without.log $D/ 2>/dev/null
rm -rf $W
