#!/bin/bash
# usage: tools/sweep.sh "<checks>" "<seeds>" [tier]   -- runs ./check for each, prints one line per run
cd "$(dirname "$0")/.."
export PYTHONPATH=$PWD
/venv/bin/python -m vf.setup >/dev/null 2>&1
tier=${3:-quick}
for s in $2; do
  for c in $1; do
    t0=$(date +%s)
    out=$(VERIF_SEED=$s ./check $c --tier $tier 2>&1)
    rc=$?
    echo "SWEEP check=$c seed=$s tier=$tier rc=$rc wall=$(( $(date +%s) - t0 ))s :: $(echo "$out" | grep -E '^VERDICT' | cut -c1-160)"
    if [ $rc -ne 0 ]; then echo "$out" | grep -E "mechanism=|INCONCLUSIVE|by mechanism" | cut -c1-400 | head -12; fi
  done
done
